/* Layer C, inductive step (C13, C18): an ARBITRARY eav_t satisfying the representation invariant
 * INV(e, c) - c the mode confirmed by the last successful eav_setup, or -1 for a freshly
 * initialised object - then ONE arbitrary operation; afterwards INV holds again (for the updated c)
 * and a validation agrees with a fresh object.  Base case: eav_init establishes INV(e, -1)
 * (checked too).  Together: histories of any length.  If a counterexample starts from a state no
 * real history reaches, the invariant is too weak: strengthen it, it is not a finding. */
#include <stdlib.h>
#include <string.h>
#include <eav.h>
#include "vf.h"
#define CB_ADDRS 1
#include "cbstubs.h"

enum { OP_RFC, OP_TLDCHECK, OP_ALLOW, OP_SETUP, OP_EMAIL, OP_ERRSTR, OP_FREE_INIT, OP_MAX };

#ifdef HAVE_IDNKIT
#define FN6531 ((eav_utf8_f) is_6531_email)
#else
#define FN6531 ((eav_utf8_f) is_6531_email)
#endif

static eav_ascii_f ascii_fn(int c)
{
    return c == EAV_RFC_822 ? is_822_email : c == EAV_RFC_5321 ? is_5321_email : is_5322_email;
}

/* the representation invariant */
static bool inv(const eav_t *e, int c, bool result_valid)
{
    if (e->errcode < 0 || e->errcode >= EEAV_MAX) return false;
    if (e->idnmsg != NULL && !CB_IS_IDN_MESSAGE(e->idnmsg)) return false;
    if (e->errcode == EEAV_IDN_ERROR && e->idnmsg == NULL) return false;
    if (e->result != NULL && !result_valid) return false;
    if (c == -1)
        return e->utf8 == false && e->utf8_cb == NULL && e->ascii_cb == NULL && e->initialized == false &&
               e->result == NULL && (e->errcode == EEAV_NO_ERROR || e->errcode == EEAV_INVALID_RFC) && e->idnmsg == NULL;
    if (c == EAV_RFC_6531) {
        if (!(e->utf8 == true && e->utf8_cb == FN6531 && e->initialized == true)) return false;
        if (!(e->ascii_cb == NULL || e->ascii_cb == is_822_email || e->ascii_cb == is_5321_email || e->ascii_cb == is_5322_email)) return false;
#ifdef HAVE_IDNKIT
        if (!(e->idn != NULL && ik_live == 1)) return false;
#endif
        return true;
    }
    if (!(e->utf8 == false && e->ascii_cb == ascii_fn(c) && e->initialized == false)) return false;
    if (!(e->utf8_cb == NULL || e->utf8_cb == FN6531)) return false;
#ifdef HAVE_IDNKIT
    if (ik_live != 0) return false;
#endif
    return true;
}

static int expect_accept(int rc, int allow)
{
    if (rc == 0) return 1;
    if (rc < 0) return 0;
    return (allow & cb_bit_of_class(rc)) != 0;
}

void harness(void)
{
    /* ---- base case */
    {
        eav_t b;
        cb_garbage(&b, sizeof b);
        eav_init(&b);
        VF_ASSERT(inv(&b, -1, false) && b.errcode == EEAV_NO_ERROR, "C13 (base): eav_init establishes the invariant of a fresh object, from any memory image");
    }

    /* ---- an arbitrary state satisfying INV */
    eav_t e;
    cb_garbage(&e, sizeof e);
    int c = nondet_int();
    VF_ASSUME(c >= -1 && c <= EAV_RFC_6531);
    e.rfc = nondet_int(); e.tld_check = nondet_bool(); e.allow_tld = nondet_int();
    e.errcode = nondet_int();
    e.idnmsg = nondet_bool() ? (nondet_bool() ? cb_idn_message : cb_idn_message2) : NULL;
    eav_result_t *old = NULL;
    if (nondet_bool()) {
        old = malloc(sizeof *old);
        VF_ASSUME(old != NULL);
        old->is_ipv4 = nondet_bool(); old->is_ipv6 = nondet_bool(); old->is_domain = nondet_bool();
        old->rc = nondet_int(); old->idn_rc = nondet_int();
#ifdef EAV_EXTRA
        old->lpart = NULL; old->domain = NULL;
#endif
    }
    e.result = old;
    e.utf8 = nondet_bool(); e.initialized = nondet_bool();
    unsigned k1 = nondet_uint(), k2 = nondet_uint();
    VF_ASSUME(k1 <= 3 && k2 <= 1);
    e.ascii_cb = k1 == 0 ? NULL : ascii_fn((int) k1 - 1);
    e.utf8_cb = k2 == 0 ? NULL : FN6531;
#ifdef HAVE_IDNKIT
    e.actions = IDN_ENCODE_REGIST;
    e.idn = NULL;
    if (c == EAV_RFC_6531) { idn_resconf_create(&e.idn); }
#endif
    VF_ASSUME(inv(&e, c, true));
    cb_addr[0][0] = 'a'; cb_addr[0][1] = 0;

    /* ---- one arbitrary operation */
    int op = nondet_int();
    VF_ASSUME(op >= 0 && op < OP_MAX);
    int c2 = c;
    bool result_valid = true;
    int prev_err = e.errcode;
    const char *prev_idn = e.idnmsg;
    switch (op) {
    case OP_RFC:      e.rfc = nondet_int(); break;
    case OP_TLDCHECK: e.tld_check = nondet_bool(); break;
    case OP_ALLOW:    e.allow_tld = nondet_int(); break;
    case OP_SETUP: {
        int asked = e.rfc;
        int s = eav_setup(&e);
        if (asked >= EAV_RFC_822 && asked <= EAV_RFC_6531) {
            VF_ASSERT(s == 0, "C15: eav_setup succeeds for the four defined modes, from any reachable state");
            c2 = asked;
            VF_COVER(c == EAV_RFC_6531 && asked != EAV_RFC_6531, "leave-6531");
            VF_COVER(c >= 0 && c != EAV_RFC_6531 && asked == EAV_RFC_6531, "enter-6531");
        } else {
            VF_ASSERT(s == EEAV_INVALID_RFC, "C15: eav_setup fails with EEAV_INVALID_RFC otherwise");
            VF_ASSERT(CB_SAME_MSG(eav_errstr(&e), cb_msg_of(EEAV_INVALID_RFC)), "C15: ... and eav_errstr reports it, from any reachable state");
            VF_COVER(c == EAV_RFC_6531, "failed-setup-in-6531");
        }
        VF_ASSERT(e.result == old, "eav_setup does not touch the result record");
    } break;
    case OP_EMAIL: {
        if (c < 0) break;                                     /* legal histories validate after a successful setup */
        int ret = eav_is_email(&e, (const char *) cb_addr[0], 1);
        VF_ASSERT(cb_calls == 1 && cb_last_mode == c, "C13: the confirmed mode is applied, whatever state the object was in");
        VF_ASSERT(cb_last_tld == e.tld_check, "C13: the current tld_check is applied");
        VF_ASSERT(e.result == cb_last_result && e.result != old, "C13: the previous result record is replaced by this call's");
        eav_t f;
        cb_garbage(&f, sizeof f);
        eav_init(&f);
        f.rfc = c; f.tld_check = e.tld_check; f.allow_tld = e.allow_tld;
        VF_ASSERT(eav_setup(&f) == 0, "fresh object: setup succeeds");
        int fret = eav_is_email(&f, (const char *) cb_addr[0], 1);
        VF_ASSERT(ret == fret && e.errcode == f.errcode, "C13: decision and error code equal a fresh object's, from any reachable state");
        VF_ASSERT(e.result->rc == f.result->rc && e.result->idn_rc == f.result->idn_rc && e.result->is_domain == f.result->is_domain &&
                  e.result->is_ipv4 == f.result->is_ipv4 && e.result->is_ipv6 == f.result->is_ipv6, "C13: result fields equal a fresh object's");
        VF_ASSERT(ret == expect_accept(e.result->rc, e.allow_tld), "C08: decision follows rc and the current allow_tld");
        { const char *ma = eav_errstr(&e), *mb = eav_errstr(&f);
          VF_ASSERT(ma == mb || (CB_IS_IDN_MESSAGE(ma) && cb_same_text(ma, mb)), "C13: message equals a fresh object's (no stale IDN message)"); }
        VF_COVER(prev_idn != NULL && ret == 1, "accept-after-idn-error");
        eav_free(&f);
        VF_FORGET(cb_last_result);
    } break;
    case OP_ERRSTR: {
        const char *m = eav_errstr(&e);
        if (prev_err == EEAV_IDN_ERROR) VF_ASSERT(CB_IS_IDN_MESSAGE(m), "C13: eav_errstr keeps describing the recorded IDN failure");
        else VF_ASSERT(CB_SAME_MSG(m, cb_msg_of(prev_err)), "C13: eav_errstr is the message of the recorded code");
        VF_ASSERT(m != NULL && m[0] != 0, "C15: never an empty message");
    } break;
    case OP_FREE_INIT:
        eav_free(&e);
        VF_ASSERT(e.result == NULL, "C13: eav_free releases the result");
        result_valid = false;
#ifdef HAVE_IDNKIT
        VF_ASSERT(ik_live == 0 && !ik_bad_destroy, "C18: eav_free releases the IDN context exactly once");
#endif
        eav_init(&e);
        c2 = -1;
        break;
    }
    VF_ASSERT(inv(&e, c2, result_valid), "C13 (step): the representation invariant is preserved by every operation");
#ifdef HAVE_IDNKIT
    VF_ASSERT(!ik_bad_destroy && !cb_bad_ctx, "C18: contexts are destroyed once and live when used");
#endif
    /* release what the state still owns, then --memory-leak-check: nothing else may be left */
    eav_free(&e);
    VF_FORGET(old);
    VF_COVER(op == OP_EMAIL && c >= 0, "validated");
    VF_END();
}
