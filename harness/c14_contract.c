/* C14, step S2: write sets by contract enforcement.  Every public entry point gets a contract whose
 * assigns clause names only what it may legitimately write; goto-instrument --dfcc instruments every
 * assignment on every path with an "is assignable" obligation.  A write to the caller's string
 * (even one that is restored afterwards), to a file-scope object or to any other caller-visible
 * object fails.  (Function-local statics are listed by step S1, the symbol scan.) */
#include <stddef.h>
#include <stdlib.h>
#include <eav.h>
#include "vf.h"

#ifndef VF_N
#define VF_N 4
#endif

/* ---- contracts (declared here, enforced on the real definitions) */
#define PURE(f) int f(const char *start, const char *end) __CPROVER_requires(1) __CPROVER_assigns()
PURE(is_822_local); PURE(is_5321_local); PURE(is_5322_local); PURE(is_6531_local);
PURE(is_ascii_domain); PURE(is_ipv4); PURE(is_ipv6); PURE(is_ipaddr); PURE(is_special_domain); PURE(is_tld);
int is_utf8_domain(int *r, const char *start, const char *end, bool tld_check) __CPROVER_requires(1) __CPROVER_assigns(*r);
#define EMAILC(f) eav_result_t *f(const char *email, size_t length, bool tld_check) __CPROVER_requires(1) __CPROVER_assigns()
EMAILC(is_822_email); EMAILC(is_5321_email); EMAILC(is_5322_email); EMAILC(is_6531_email);
int eav_is_email(eav_t *eav, const char *email, size_t length)
    __CPROVER_requires(1)
    __CPROVER_assigns(eav->idnmsg, eav->result, eav->errcode)
    __CPROVER_frees(eav->result);
void eav_init(eav_t *eav) __CPROVER_assigns(*eav);
int eav_setup(eav_t *eav) __CPROVER_assigns(eav->ascii_cb, eav->utf8_cb, eav->utf8, eav->initialized, eav->errcode);
void eav_free(eav_t *eav) __CPROVER_assigns(eav->result) __CPROVER_frees(eav->result);

#ifdef VF_SMALL_TABLE
/* a small concrete table stands in for the 1591 rows: write sets do not depend on the table size */
#include <eav/auto_tld.h>
const tld_t tld_list[] = { { "com", 4, TLD_TYPE_GENERIC }, { "ru", 3, TLD_TYPE_COUNTRY_CODE }, { NULL, 0, 0 } };
#endif

#ifdef VF_NEED_CONVERTER
/* IDN converter stub: K1 */
int idn2_to_ascii_8z(const char *input, char **output, int flags)
{
    (void) flags; (void) input;
    int rc = nondet_int();
    if (rc != 0) return rc;
    char *o = malloc(VF_N + 1);
    VF_ASSUME(o != NULL);
    for (unsigned i = 0; i < VF_N; i++) { unsigned char c = nondet_uchar(); o[i] = (char) (c & 0x7f); }
    o[VF_N] = 0;
    *output = o;
    return 0;
}
const char *idn2_strerror(int rc) { (void) rc; return "idn"; }
void idn2_free(void *p) { free(p); }
#endif

#ifdef VF_STUB_IP
/* the address validators have their own write-set queries; here they are uninterpreted verdicts */
int is_ipaddr(const char *s, const char *e) { (void) s; (void) e; return nondet_bool(); }
int is_ipv4(const char *s, const char *e) { (void) s; (void) e; return nondet_bool(); }
int is_ipv6(const char *s, const char *e) { (void) s; (void) e; return nondet_bool(); }
#endif

void harness(void)
{
    unsigned char s[VF_N + 2];
    unsigned n = nondet_uint();
    VF_ASSUME(n <= VF_N);
    for (unsigned i = 0; i < VF_N + 1; i++) { unsigned char c = nondet_uchar(); s[i] = c | (c == 0); }
    s[VF_N + 1] = 0;
#if defined(VF_PURE)
    s[n] = VF_ENDCH;                         /* what follows the range: '@', ']' or the terminator */
    if (VF_ENDCH == 0 || 1) s[n + 1] = 0;
    int r = VF_PURE((const char *) s, (const char *) s + n);
    (void) r;
#elif defined(VF_UDOM)
    s[n] = 0;
    int idn = 0;
    int r = is_utf8_domain(&idn, (const char *) s, (const char *) s + n, nondet_bool());
    (void) r;
#elif defined(VF_EMAIL)
#ifdef VF_LIT            /* x@[........] skeleton of exactly VF_N bytes: the address-literal path */
    n = VF_N; s[1] = '@'; s[2] = '['; s[VF_N - 1] = ']';
#endif
    s[n] = 0;
    eav_result_t *r = VF_EMAIL((const char *) s, n, nondet_bool());
    (void) r;
#elif defined(VF_API)
    s[n] = 0;
    eav_t e;
    eav_init(&e);
    e.rfc = nondet_int(); e.tld_check = nondet_bool(); e.allow_tld = nondet_int();
    VF_ASSUME(e.rfc >= EAV_RFC_822 && e.rfc <= EAV_RFC_6531);
    e.ascii_cb = is_5321_email; e.utf8_cb = is_6531_email; e.utf8 = (e.rfc == EAV_RFC_6531); e.errcode = 0; e.idnmsg = NULL;
    int r = eav_is_email(&e, (const char *) s, n);
    (void) r;
#endif
    VF_END();
}
