/* Layer C, histories: a symbolic program of VF_K operations on one eav_t; after every
 * eav_is_email a fresh object with the confirmed mode and the current settings validates the
 * same address and must agree on everything observable.  (C13, C19, C18-resources) */
#include <stdlib.h>
#include <string.h>
#include <eav.h>
#include "vf.h"
#ifndef CB_ADDRS
#define CB_ADDRS 2
#endif
#include "cbstubs.h"

#ifndef VF_K
#define VF_K 4
#endif

enum { OP_RFC, OP_TLDCHECK, OP_ALLOW, OP_SETUP, OP_EMAIL, OP_ERRSTR, OP_REINIT, OP_MAX };


static int expect_accept(int rc, int allow)
{
    if (rc == 0) return 1;
    if (rc < 0) return 0;
    return (allow & cb_bit_of_class(rc)) != 0;
}

void harness(void)
{
    eav_t e;
    cb_garbage(&e, sizeof e);
    eav_init(&e);
    for (int i = 0; i < CB_ADDRS; i++) {           /* pool content is irrelevant to the stubs */
        cb_addr[i][0] = 'a' + i; cb_addr[i][1] = 0;
    }

    int confirmed = -1;           /* mode confirmed by the last successful eav_setup */
    int exp_err = EEAV_NO_ERROR;  /* what eav_errstr must describe */
    long exp_idn = 0;
    int emails = 0;

    for (int k = 0; k < VF_K; k++) {
        int op = nondet_int();
        VF_ASSUME(op >= 0 && op < OP_MAX);
        switch (op) {
        case OP_RFC:      e.rfc = nondet_int(); break;
        case OP_TLDCHECK: e.tld_check = nondet_bool(); break;
        case OP_ALLOW:    e.allow_tld = nondet_int(); break;
        case OP_SETUP: {
            int want_ok = (e.rfc >= EAV_RFC_822 && e.rfc <= EAV_RFC_6531);
            int asked = e.rfc;
            int s = eav_setup(&e);
            VF_ASSERT((s == 0) == (want_ok != 0), "C15: eav_setup succeeds exactly for the four defined modes");
            if (s == 0) confirmed = asked;
            else {
                VF_ASSERT(s == EEAV_INVALID_RFC, "C15: failure is EEAV_INVALID_RFC");
                exp_err = EEAV_INVALID_RFC;
                VF_ASSERT(CB_SAME_MSG(eav_errstr(&e), cb_msg_of(EEAV_INVALID_RFC)), "C15: after a failed eav_setup eav_errstr reports the invalid-RFC condition, whatever happened before");
                VF_COVER(confirmed >= 0, "failed-setup-after-success");
                VF_COVER(emails >= 1, "failed-setup-after-validation");
            }
        } break;
        case OP_EMAIL: {
            if (confirmed < 0) break;                  /* legal histories only: validate after a successful setup */
            int id = nondet_int();
            VF_ASSUME(id >= 0 && id < CB_ADDRS);
            int before = cb_calls;
            int ret = eav_is_email(&e, (const char *) cb_addr[id], 1);
            emails++;
            VF_ASSERT(cb_calls == before + 1, "C13: one callback per validation");
            VF_ASSERT(cb_last_mode == confirmed, "C13: the mode confirmed by the last successful eav_setup is applied");
            VF_ASSERT(cb_last_tld == e.tld_check, "C13: the current tld_check is applied");
#ifdef HAVE_IDNKIT
            VF_ASSERT(ik_live == (confirmed == EAV_RFC_6531 ? 1 : 0), "C18: a context is held exactly while mode 6531 is the confirmed mode");
#endif
            /* a fresh object with the same confirmed mode and current settings */
            eav_t f;
            cb_garbage(&f, sizeof f);
            eav_init(&f);
            f.rfc = confirmed; f.tld_check = e.tld_check; f.allow_tld = e.allow_tld;
            int fs = eav_setup(&f);
            VF_ASSERT(fs == 0, "fresh object: setup succeeds");
            int fret = eav_is_email(&f, (const char *) cb_addr[id], 1);
            VF_ASSERT(ret == fret, "C13: return value equals a fresh object's");
            VF_ASSERT(e.errcode == f.errcode, "C13: error code equals a fresh object's");
            VF_ASSERT(e.result != NULL && f.result != NULL && e.result != f.result, "each object owns its result record");
            VF_ASSERT(e.result->rc == f.result->rc && e.result->idn_rc == f.result->idn_rc &&
                      e.result->is_ipv4 == f.result->is_ipv4 && e.result->is_ipv6 == f.result->is_ipv6 &&
                      e.result->is_domain == f.result->is_domain, "C13: result fields equal a fresh object's");
            VF_ASSERT(ret == expect_accept(e.result->rc, e.allow_tld), "C08: decision follows rc and the current allow_tld");
            const char *m1 = eav_errstr(&e);
            long a1 = cb_strerror_arg;
            const char *m2 = eav_errstr(&f);
            VF_ASSERT(m1 == m2 || (CB_IS_IDN_MESSAGE(m1) && cb_same_text(m1, m2)), "C13: message equals a fresh object's");
            if (e.errcode == EEAV_IDN_ERROR) {
                VF_ASSERT(CB_IS_IDN_MESSAGE_FOR(m1, e.result->idn_rc) && a1 == e.result->idn_rc, "C19: IDN failure reports the library message for its code");
                VF_ASSERT(ret == 0, "C19: an IDN failure is a rejection");
                VF_COVER(emails >= 2, "idn-fault-after-earlier-validation");
            }
            VF_COVER(emails >= 2 && e.errcode == EEAV_NO_ERROR && ret == 1, "accept-after-earlier-validation");
            exp_err = e.errcode;
            exp_idn = e.result->idn_rc;
            eav_free(&f);
        } break;
        case OP_ERRSTR: {
            const char *m = eav_errstr(&e);
            if (exp_err == EEAV_IDN_ERROR)
                VF_ASSERT(CB_IS_IDN_MESSAGE_FOR(m, exp_idn), "C13: eav_errstr still describes the most recent validation (IDN message of its code)");
            else
                VF_ASSERT(CB_SAME_MSG(m, cb_msg_of(exp_err)), "C13: eav_errstr describes the most recent validation / failed setup");
        } break;
        case OP_REINIT:
            eav_free(&e);
            VF_ASSERT(e.result == NULL, "C13: eav_free releases the result");
            eav_init(&e);
            confirmed = -1; exp_err = EEAV_NO_ERROR;
            VF_COVER(emails >= 1, "reinit-after-use");
            break;
        }
    }
    eav_free(&e);
#ifdef HAVE_IDNKIT
    VF_ASSERT(ik_live == 0, "C18: every IDN context created by eav_setup has been destroyed exactly once");
    VF_ASSERT(!ik_bad_destroy, "C18: never a destroy of a dead or foreign context");
    VF_ASSERT(!cb_bad_ctx, "C18: mode 6531 validations run with the live context and the configured actions");
    VF_COVER(ik_created >= 2, "context-recreated");
#endif
    VF_FORGET(cb_last_result); VF_FORGET(cb_last_email);
    VF_COVER(emails >= 2, "two-validations");
    VF_END();
    /* --memory-leak-check: every result record and context must be released here */
}
