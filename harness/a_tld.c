/* C07-T2: the real is_tld.c linked against a small symbolic table: VF_K rows of symbolic
 * lower-case names of length 1..VF_L with length = strlen+1 and symbolic classes; symbolic
 * query of length 0..VF_L+1.  Result = class of the first row equal to the WHOLE query
 * (ASCII case-insensitive), else -EEAV_TLD_INVALID. */
#include <stddef.h>
#include <eav.h>
#define const              /* the harness owns a writable table; is_tld.c sees it as const */
#include <eav/auto_tld.h>
#undef const
#include "vf.h"

#ifndef VF_K
#define VF_K 3
#endif
#ifndef VF_L
#define VF_L 3
#endif

tld_t tld_list[VF_K + 1];
static char names[VF_K][VF_L + 1];

static unsigned char lower(unsigned char c) { return (c >= 'A' && c <= 'Z') ? c + 32 : c; }

void harness(void)
{
    unsigned len[VF_K];
    for (unsigned k = 0; k < VF_K; k++) {
        len[k] = nondet_uint();
        VF_ASSUME(len[k] >= 1 && len[k] <= VF_L);
        for (unsigned j = 0; j < VF_L; j++) {
            unsigned char c = nondet_uchar();
            VF_ASSUME((c >= 'a' && c <= 'z') || (c >= '0' && c <= '9') || c == '-');
            names[k][j] = (j < len[k]) ? (char) c : 0;
        }
        names[k][VF_L] = 0;
        int t = nondet_int();
        VF_ASSUME(t >= TLD_TYPE_NOT_ASSIGNED && t <= TLD_TYPE_RETIRED);
        tld_list[k].domain = names[k];
        tld_list[k].length = len[k] + 1;
        tld_list[k].type = t;
    }
    tld_list[VF_K].domain = NULL; tld_list[VF_K].length = 0; tld_list[VF_K].type = 0;
    /* like the shipped table (checked against the CSV on every run): rows in strictly ascending byte order,
     * hence pairwise distinct - a lookup may rely on that (binary search, early exit) */
    for (unsigned k = 0; k + 1 < VF_K; k++) {
        int lt = 0, decided = 0;
        for (unsigned j = 0; j <= VF_L; j++) {
            unsigned char a = (unsigned char) names[k][j], b = (unsigned char) names[k + 1][j];
            if (!decided && a != b) { lt = a < b; decided = 1; }
        }
        VF_ASSUME(decided && lt);
    }

    unsigned char q[VF_L + 2];
    unsigned n = nondet_uint();
    VF_ASSUME(n <= VF_L + 1);
    for (unsigned j = 0; j < VF_L + 1; j++) {
        unsigned char c = nondet_uchar();
        VF_ASSUME(c != 0 && c < 0x80);
        q[j] = (j < n) ? c : 0;
    }
    q[VF_L + 1] = 0;

#ifdef VF_TWICE
    /* C13 at leaf level: an earlier lookup of another (symbolic) label must not influence this one */
    {
        unsigned char q0[VF_L + 2];
        unsigned n0 = nondet_uint();
        VF_ASSUME(n0 <= VF_L + 1);
        for (unsigned j = 0; j < VF_L + 1; j++) {
            unsigned char c0 = nondet_uchar();
            VF_ASSUME(c0 != 0 && c0 < 0x80);
            q0[j] = (j < n0) ? c0 : 0;
        }
        q0[VF_L + 1] = 0;
        (void) is_tld((const char *) q0, (const char *) q0 + n0);
    }
#endif
    int rc = is_tld((const char *) q, (const char *) q + n);

    int want = -EEAV_TLD_INVALID;
    for (unsigned k = 0; k < VF_K; k++) {
        int eq = (len[k] == n);
        for (unsigned j = 0; j < VF_L; j++)
            if (j < n && j < len[k] && lower(q[j]) != (unsigned char) names[k][j]) eq = 0;
        if (eq && want == -EEAV_TLD_INVALID) want = tld_list[k].type;
    }
    VF_ASSERT(rc == want, "C07: class of the first row equal to the whole label (case-insensitive), else invalid TLD");
    VF_COVER(rc > 0 && n == VF_L, "listed");
    VF_COVER(rc < 0 && n >= 1, "unlisted");
    VF_COVER(rc < 0 && n == len[0] + 1, "one-char-extension-of-row0");
    VF_END();
}
