/* Recording, memoising stubs of the public leaf validators (Layer B).
 * Each stub is an uninterpreted function of (function, start, end): the first call with a
 * given argument pair draws an unconstrained value of the documented range, later calls
 * with the same pair return the same value.  Every call is recorded. */
#ifndef LEAFSTUBS_H
#define LEAFSTUBS_H
#include <eav.h>
#include <eav/auto_tld.h>
#include "vf.h"

enum { F_L822, F_L5321, F_L5322, F_L6531, F_ADOM, F_UDOM, F_SPECIAL, F_TLD, F_IPADDR, F_IPV4, F_IPV6, F_MAX };

#define LS_MAXCALLS 12
struct ls_call { int fn; long s, e; int ret; int idn; bool tld_check; };
static struct ls_call ls_calls[LS_MAXCALLS];
static int ls_n;
static int ls_count[F_MAX];
static const char *ls_base;      /* start of the address buffer */
static bool ls_bad_range;        /* a stub was given a range outside the buffer */
static long ls_buflen;

static int ls_draw(int fn)
{
    int v = nondet_int();
    switch (fn) {
    case F_L822: case F_L5321: case F_L5322: case F_L6531:
        VF_ASSUME(v == 0 || (v <= -EEAV_LPART_EMPTY && v >= -EEAV_LPART_INVALID_UTF8));
        break;
    case F_ADOM:
        VF_ASSUME(v == 0 || (v <= -EEAV_DOMAIN_EMPTY && v >= -EEAV_DOMAIN_NUMERIC));
        break;
    case F_UDOM:
        VF_ASSUME((v >= 0 && v < TLD_TYPE_MAX) || v == -EEAV_IDN_ERROR || v == -EEAV_TLD_INVALID ||
                  (v <= -EEAV_DOMAIN_EMPTY && v >= -EEAV_DOMAIN_NOT_FQDN));
        break;
    case F_TLD:
        VF_ASSUME((v >= TLD_TYPE_NOT_ASSIGNED && v <= TLD_TYPE_RETIRED) || v == -EEAV_TLD_INVALID);
        break;
    default:
        VF_ASSUME(v == 0 || v == 1);
    }
    return v;
}

static struct ls_call *ls_find(int fn, long s, long e)
{
    for (int i = 0; i < ls_n; i++)
        if (ls_calls[i].fn == fn && ls_calls[i].s == s && ls_calls[i].e == e)
            return &ls_calls[i];
    return 0;
}

/* value of the uninterpreted function, without counting as a call by the code under test */
static struct ls_call *ls_value(int fn, long s, long e)
{
    struct ls_call *c = ls_find(fn, s, e);
    if (c) return c;
    VF_ASSERT(ls_n < LS_MAXCALLS, "harness: stub call table large enough");
    c = &ls_calls[ls_n++];
    c->fn = fn; c->s = s; c->e = e;
    c->ret = ls_draw(fn);
    c->idn = (fn == F_UDOM) ? nondet_int() : 0;
    return c;
}

/* fn was consulted at least once and only ever on the range [s,e) (repeated calls are harmless: the stubs are functions) */
static int ls_only(int fn, long s, long e)
{
    int seen = 0;
    for (int i = 0; i < ls_n; i++)
        if (ls_calls[i].fn == fn) {
            if (ls_calls[i].s != s || ls_calls[i].e != e) return 0;
            seen = 1;
        }
    return seen && ls_count[fn] >= 1;
}

static int ls_call(int fn, const char *start, const char *end)
{
    long s = start - ls_base, e = end - ls_base;
    if (s < 0 || e < s || e > ls_buflen) ls_bad_range = true;
    ls_count[fn]++;
    return ls_value(fn, s, e)->ret;
}

#ifndef LS_NO_LOCAL
int is_822_local(const char *s, const char *e)  { return ls_call(F_L822, s, e); }
int is_5321_local(const char *s, const char *e) { return ls_call(F_L5321, s, e); }
int is_5322_local(const char *s, const char *e) { return ls_call(F_L5322, s, e); }
int is_6531_local(const char *s, const char *e) { return ls_call(F_L6531, s, e); }
#endif
#ifndef LS_NO_ADOM
int is_ascii_domain(const char *s, const char *e)   { return ls_call(F_ADOM, s, e); }
#endif
#ifndef LS_NO_TLD
int is_special_domain(const char *s, const char *e) { return ls_call(F_SPECIAL, s, e); }
int is_tld(const char *s, const char *e)            { return ls_call(F_TLD, s, e); }
#endif
#ifndef LS_NO_IP
int is_ipaddr(const char *s, const char *e) { return ls_call(F_IPADDR, s, e); }
int is_ipv4(const char *s, const char *e)   { return ls_call(F_IPV4, s, e); }
int is_ipv6(const char *s, const char *e)   { return ls_call(F_IPV6, s, e); }
#endif
#ifndef LS_NO_UDOM
static bool ls_udom_tld_check;
#ifdef HAVE_IDNKIT
static idn_resconf_t ls_udom_ctx; static idn_action_t ls_udom_actions;
int is_utf8_domain(idn_resconf_t ctx, idn_action_t actions, idn_result_t *r, const char *s, const char *e, bool tld_check)
{
    ls_udom_ctx = ctx; ls_udom_actions = actions;
#else
int is_utf8_domain(int *r, const char *s, const char *e, bool tld_check)
{
#endif
    long so = s - ls_base, eo = e - ls_base;
    if (so < 0 || eo < so || eo > ls_buflen) ls_bad_range = true;
    ls_count[F_UDOM]++;
    ls_udom_tld_check = tld_check;
    struct ls_call *c = ls_value(F_UDOM, so, eo);
    /* with TLD checking off the documented range is 0 or a negative code */
    if (!tld_check) VF_ASSUME(c->ret <= 0 && c->ret != -EEAV_TLD_INVALID && c->ret != -EEAV_DOMAIN_NOT_FQDN);
    *r = c->idn;
    return c->ret;
}
#endif
#endif
