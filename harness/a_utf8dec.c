/* Layer A: the strict UTF-8 decoder on a window of exactly VF_L bytes (all 2^(8*VF_L) windows):
 * first character / END / ERROR equals Unicode Table 3-7, cursor advance is the sequence length. */
#include "vf.h"
#include "utf8_decode.h"
#include "ref_local.h"

#ifndef VF_L
#define VF_L 4
#endif

static unsigned ref_cp(const unsigned char *s, unsigned l)
{
    if (l == 1) return s[0];
    if (l == 2) return ((s[0] & 0x1Fu) << 6) | (s[1] & 0x3Fu);
    if (l == 3) return ((s[0] & 0x0Fu) << 12) | ((s[1] & 0x3Fu) << 6) | (s[2] & 0x3Fu);
    return ((s[0] & 0x07u) << 18) | ((s[1] & 0x3Fu) << 12) | ((s[2] & 0x3Fu) << 6) | (s[3] & 0x3Fu);
}

void harness(void)
{
    unsigned char w[VF_L ? VF_L : 1];
    for (unsigned i = 0; i < VF_L; i++) w[i] = nondet_uchar();
    utf8_decode_t u;
    utf8_decode_init((const char *) w, VF_L, &u);
    int c = utf8_decode_next(&u);
    if (VF_L == 0) {
        VF_ASSERT(c == UTF8_END, "C03: empty input decodes to END");
    } else {
        unsigned l = ref_utf8_len(w, 0, VF_L);
        if (l == 0) {
            VF_ASSERT(c == UTF8_ERROR, "C03: ill-formed sequence (overlong, surrogate, > U+10FFFF, stray/missing continuation) is an error");
            VF_COVER(w[0] == 0xED, "error-surrogate-lead");
            VF_COVER(w[0] == 0xC0 || w[0] == 0xE0 || w[0] == 0xF0, "error-overlong-lead");
        } else {
            VF_ASSERT(c >= 0 && (unsigned) c == ref_cp(w, l), "C03: well-formed sequence decodes to its scalar value");
            VF_ASSERT(utf8_decode_at_byte(&u) == 0, "first character starts at byte 0");
            int c2 = utf8_decode_next(&u);
            if (l == VF_L) {
                VF_ASSERT(c2 == UTF8_END, "C03: cursor advanced by exactly the sequence length (END follows)");
            } else {
                unsigned l2 = ref_utf8_len(w, l, VF_L);
                VF_ASSERT(utf8_decode_at_byte(&u) == (int) l, "C03: the next character starts right after the sequence");
                if (l2 == 0) VF_ASSERT(c2 == UTF8_ERROR, "C03: second sequence ill-formed");
                else VF_ASSERT(c2 >= 0 && (unsigned) c2 == ref_cp(w + l, l2), "C03: second sequence decodes to its scalar value");
            }
            VF_COVER(l == 4, "four-byte");
            VF_COVER(l == 3, "three-byte");
            VF_COVER(l == 2, "two-byte");
        }
    }
    VF_END();
}
