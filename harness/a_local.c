/* Layer A: real is_{822,5321,5322,6531}_local == reference recogniser, on every
 * NUL-free string of length <= VF_N placed in an object of exactly n+ctx+1 bytes,
 * followed by ctx <= VF_CTX arbitrary bytes before the terminator. */
#include <stdlib.h>
#include <eav.h>
#include "vf.h"
#include "ref_local.h"

#ifndef VF_N
#define VF_N 6
#endif
#ifndef VF_CTX
#define VF_CTX 2
#endif
#ifndef VF_MODE
#define VF_MODE RM_5321
#endif
#if VF_MODE == 0
#define FUNC is_822_local
#elif VF_MODE == 1
#define FUNC is_5321_local
#elif VF_MODE == 2
#define FUNC is_5322_local
#else
#define FUNC is_6531_local
#endif

void harness(void)
{
    unsigned n = nondet_uint();
    unsigned c = nondet_uint();
#ifdef VF_EXACT_N
    VF_ASSUME(n == VF_N);
#else
    VF_ASSUME(n <= VF_N);
#endif
    VF_ASSUME(c <= VF_CTX);
#ifdef VF_EXACT_OBJ      /* object of exactly n+c+1 bytes: over/under-reads are out of bounds */
    VF_ASSUME(n == VF_N && c == VF_CTX);
#endif
    unsigned char buf[VF_N + VF_CTX + 1];
#ifdef VF_TAIL_ALIGN     /* the terminator is the last byte of the object: any read past it is out of bounds */
    unsigned char *s = buf + ((VF_N + VF_CTX) - (n + c));
#else                    /* the first byte is the first byte of the object: any read before it is out of bounds */
    unsigned char *s = buf;
#endif
    for (unsigned i = 0; i < n + c; i++) {
        s[i] = nondet_uchar();
        VF_ASSUME(s[i] != 0);
#ifdef VF_ASCII_ONLY
        VF_ASSUME(i >= n || s[i] < 0x80);
#endif
    }
    s[n + c] = 0;

    int rc = FUNC((const char *) s, (const char *) s + n);
    int want = ref_local(VF_MODE, s, n);

    VF_ASSERT(rc <= 0, "local validator returns 0 or a negative code");
    VF_ASSERT((rc == 0) == (want != 0), "C02/C03: local part accepted iff the reference grammar accepts");
    VF_ASSERT(rc != 0 || n >= 1, "empty local part never accepted");

    VF_COVER(rc == 0 && n >= 3 && s[0] == '"', "accepted-quoted");
    VF_COVER(rc == 0 && n >= 3 && s[1] == '.', "accepted-dotted");
    VF_COVER(rc != 0 && n >= 2, "rejected");
#if VF_MODE == 3
    VF_COVER(rc == 0 && n >= 3 && s[0] >= 0xE0, "accepted-multibyte");
#endif
    VF_END();
}
