/* Layer A: real is_{822,5321,5322,6531}_local == reference recogniser, on every
 * NUL-free string of length <= VF_N placed in an object of exactly n+ctx+1 bytes,
 * followed by ctx <= VF_CTX arbitrary bytes before the terminator. */
#include <stdlib.h>
#include <eav.h>
#include "vf.h"
#include "ref_local.h"

#ifndef VF_N
#define VF_N 6
#endif
#ifndef VF_CTX
#define VF_CTX 2
#endif
#ifndef VF_MODE
#define VF_MODE RM_5321
#endif
#if VF_MODE == 0
#define FUNC is_822_local
#elif VF_MODE == 1
#define FUNC is_5321_local
#elif VF_MODE == 2
#define FUNC is_5322_local
#else
#define FUNC is_6531_local
#endif

void harness(void)
{
    unsigned n = nondet_uint();
    unsigned c = nondet_uint();
#ifdef VF_EXACT_N
    n = VF_N;                  /* one query per length: loop exits are concrete */
#else
    VF_ASSUME(n <= VF_N);
#endif
    VF_ASSUME(c <= VF_CTX);
#ifdef VF_EXACT_OBJ      /* object of exactly n+c+1 bytes: over/under-reads are out of bounds */
    VF_ASSUME(n == VF_N && c == VF_CTX);
#endif
    unsigned char buf[VF_N + VF_CTX + 1];
#ifdef VF_TAIL_ALIGN     /* the terminator is the last byte of the object: any read past it is out of bounds */
    unsigned char *s = buf + ((VF_N + VF_CTX) - (n + c));
#else                    /* the first byte is the first byte of the object: any read before it is out of bounds */
    unsigned char *s = buf;
#endif
#ifdef VF_LONG
    /* long family: one symbolic fill byte everywhere except VF_LONG symbolic positions holding arbitrary bytes */
    unsigned char fill = nondet_uchar();
    VF_ASSUME(fill != 0);
    unsigned lp[VF_LONG];
    unsigned char lb[VF_LONG];
    for (unsigned k = 0; k < VF_LONG; k++) { lp[k] = nondet_uint(); lb[k] = nondet_uchar(); VF_ASSUME(lb[k] != 0); }
#endif
    for (unsigned i = 0; i < n + c; i++) {
        s[i] = nondet_uchar();
        VF_ASSUME(s[i] != 0);
#ifdef VF_LONG
        if (i < n) {
            unsigned char ch = fill;
            for (unsigned k = 0; k < VF_LONG; k++) if (i == lp[k]) ch = lb[k];
            s[i] = ch;
        }
#endif
#ifdef VF_ASCII_ONLY
        VF_ASSUME(i >= n || s[i] < 0x80);
#endif
    }
    s[n + c] = 0;

    int rc = FUNC((const char *) s, (const char *) s + n);
    int want = ref_local(VF_MODE, s, n);

    VF_ASSERT(rc <= 0, "local validator returns 0 or a negative code");
    VF_ASSERT((rc == 0) == (want != 0), "C02/C03: local part accepted iff the reference grammar accepts");
    VF_ASSERT(rc != 0 || n >= 1, "empty local part never accepted");

#ifdef VF_CHECK_CODES
    /* C15: the reported reason names a condition that actually holds of the input */
    {
        int hi = 0, ctl = 0, spec = 0, quo = 0, dd = 0, ws = 0, cr = 0;
        for (unsigned i = 0; i < VF_N; i++) {
            if (i >= n) break;
            unsigned ch = s[i];
            if (ch >= 0x80) hi = 1;
            if (ch < 0x20 || ch == 0x7f) ctl = 1;
            if (ch == ' ' || (ref_special(ch) && ch != '.' && ch != '"')) spec = 1;
            if (ch == '"') quo = 1;
            if (ch == '.' && i + 1 < n && s[i + 1] == '.') dd = 1;
            if (ref_ws(ch)) ws = 1;
            if (ch == '\r') cr = 1;
        }
        VF_ASSERT((rc == -EEAV_LPART_EMPTY) == (n == 0), "C15: 'local-part is empty' iff it is empty");
        VF_ASSERT(rc != -EEAV_LPART_NOT_ASCII || hi, "C15: 'non-ascii characters' only if a byte >= 0x80 is present");
        VF_ASSERT(rc != -EEAV_LPART_CTRL_CHAR || ctl, "C15: 'control characters' only if a control byte is present");
        VF_ASSERT(rc != -EEAV_LPART_SPECIAL || spec
#ifdef RFC6531_FOLLOW_RFC20
                  || 1
#endif
                  , "C15: 'special characters' only if a special or space byte is present");
        VF_ASSERT((rc != -EEAV_LPART_MISPLACED_QUOTE && rc != -EEAV_LPART_UNQUOTED) || quo, "C15: quote errors only if a DQUOTE is present");
        VF_ASSERT(rc != -EEAV_LPART_TOO_MANY_DOTS || dd, "C15: 'too many dots' only if the local part contains '..'");
        VF_ASSERT(rc != -EEAV_LPART_MISPLACED_DOT || (n >= 1 && (s[0] == '.' || s[n - 1] == '.')), "C15: 'misplaced dot' only if the first or last byte is a dot");
        VF_ASSERT(rc != -EEAV_LPART_UNQUOTED_FWS || ws, "C15: 'unquoted characters' (FWS) only if a whitespace byte is present");
        VF_ASSERT(rc != -EEAV_LPART_INVALID_FOLDING || cr, "C15: 'invalid folding' only if a CR is present");
        VF_ASSERT(rc != -EEAV_LPART_INVALID_UTF8 || !ref_utf8_wellformed(s, n), "C15: 'invalid UTF-8' only if the bytes are ill-formed");
        VF_ASSERT(rc == 0 || (rc <= -EEAV_LPART_EMPTY && rc >= -EEAV_LPART_INVALID_UTF8 && rc != -EEAV_LPART_TOO_LONG),
                  "C15: a local-part validator reports only local-part codes");
        VF_COVER(rc == -EEAV_LPART_TOO_MANY_DOTS, "code-too-many-dots");
        VF_COVER(rc == -EEAV_LPART_MISPLACED_DOT, "code-misplaced-dot");
        VF_COVER(rc == -EEAV_LPART_SPECIAL, "code-special");
        VF_COVER(rc == -EEAV_LPART_CTRL_CHAR, "code-ctrl");
        VF_COVER(rc == -EEAV_LPART_MISPLACED_QUOTE, "code-misplaced-quote");
        VF_COVER(rc == -EEAV_LPART_UNQUOTED, "code-unquoted");
    }
#endif
    VF_COVER(rc == 0 && n >= 3 && s[0] == '"', "accepted-quoted");
    VF_COVER(rc == 0 && n >= 3 && s[1] == '.', "accepted-dotted");
    VF_COVER(rc != 0 && n >= 2, "rejected");
#if VF_MODE == 3
    VF_COVER(rc == 0 && n >= 3 && s[0] >= 0xE0, "accepted-multibyte");
#endif
    VF_END();
}
