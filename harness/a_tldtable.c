/* C11/C07-T1: the compiled table (real src/auto_tld.c) equals the table derived from
 * data/punycode.csv by the generator's documented rule (tld_expect.h is regenerated from the
 * CSV of the current tree on every run).  All data concrete: CBMC evaluates it. */
#include <stddef.h>
#include <eav/auto_tld.h>
#include "vf.h"
#include "tld_expect.h"      /* VF_ROWS, want_dom[], want_type[] */

void harness(void)
{
    unsigned i;
    for (i = 0; i < VF_ROWS; i++) {
        const char *d = tld_list[i].domain;
        const char *w = want_dom[i];
        VF_ASSERT(d != NULL, "C11: the table has a row for every CSV row");
        unsigned j = 0;
        while (w[j] != 0 && d[j] == w[j]) j++;
        VF_ASSERT(w[j] == 0 && d[j] == 0, "C11: row name equals the CSV domain (lower-case A-label), in CSV order");
        VF_ASSERT(tld_list[i].length == (size_t) j + 1, "C11: length field is strlen + 1 (whole-label comparison)");
        VF_ASSERT(tld_list[i].type == want_type[i], "C11: row class is the class the generator documents");
        VF_ASSERT(tld_list[i].type >= TLD_TYPE_NOT_ASSIGNED && tld_list[i].type <= TLD_TYPE_RETIRED, "C06: only classes 1..9 in the table");
    }
    VF_ASSERT(tld_list[VF_ROWS].domain == NULL && tld_list[VF_ROWS].length == 0 && tld_list[VF_ROWS].type == 0,
              "C11: the table ends with the sentinel right after the last CSV row");
    VF_ASSERT(TLD_TYPE_NOT_ASSIGNED == 1 && TLD_TYPE_COUNTRY_CODE == 2 && TLD_TYPE_GENERIC == 3 &&
              TLD_TYPE_GENERIC_RESTRICTED == 4 && TLD_TYPE_INFRASTRUCTURE == 5 && TLD_TYPE_SPONSORED == 6 &&
              TLD_TYPE_TEST == 7 && TLD_TYPE_SPECIAL == 8 && TLD_TYPE_RETIRED == 9 && TLD_TYPE_MAX == 10,
              "C11: enum values in the generator's order");
    VF_END();
}
