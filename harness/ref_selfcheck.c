/* The two formulations of the IPv6 reference recognisers agree on every string (both bounds). */
#include "vf.h"
#include "ref_ip.h"
#include "ref_local.h"
#ifndef VF_N
#define VF_N 10
#endif
void harness(void)
{
    unsigned char s[VF_N + 1];
    unsigned n = nondet_uint();
    VF_ASSUME(n <= VF_N);
    for (unsigned i = 0; i < VF_N; i++) { unsigned char c = nondet_uchar(); s[i] = (i < n) ? (c | (c == 0)) : 0; }
    s[VF_N] = 0;
#ifdef VF_LOCAL
    for (int m = RM_822; m <= RM_6531; m++)
        VF_ASSERT(ref_local(m, s, n) == ref_local_rd(m, s, n), "reference self-check: single-pass local-part recogniser == recursive-descent one, all four modes");
    VF_COVER(ref_local(RM_822, s, n) && n >= 6 && s[0] == '"' && s[2] == '\r', "accepted-822-fold");
    VF_COVER(ref_local(RM_5322, s, n) && n >= 4 && s[0] == '"' && s[1] == ' ', "accepted-5322-ws");
    VF_END();
    return;
#endif
    VF_ASSERT(ref_v6(s, n, 0) == ref_v6_rd(s, n, 0), "reference self-check: single-pass U6 == recursive-descent U6");
    VF_ASSERT(ref_v6(s, n, 1) == ref_v6_rd(s, n, 1), "reference self-check: single-pass L6 == recursive-descent L6");
    VF_COVER(ref_v6(s, n, 1) && n >= 9 && s[n - 2] == '.', "l6-with-v4-tail");
    VF_END();
}
