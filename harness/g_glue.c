/* Glue check (C01, keeps the layer decomposition honest): the UNDECOMPOSED real is_<mode>_email with
 * ALL real callees (local-part scanner, is_ascii_domain, is_ipaddr/is_ipv4/is_ipv6), TLD checking off,
 * on every address of exactly VF_N bytes, against the property statement itself composed from the
 * reference recognisers: accepted iff  L@D, D without '@', 1 <= |L| <= 64, L a valid local part for the
 * mode, D a valid host name or a bracketed address literal (literals: two-sided bound). */
#include <stdlib.h>
#include <string.h>
#include <eav.h>
#include "vf.h"
#include "ref_local.h"
#include "ref_domain.h"
#include "ref_ip.h"

#ifndef VF_N
#define VF_N 10
#endif
#ifndef VF_MODE
#define VF_MODE 1
#endif
#if VF_MODE == 0
#define FUNC is_822_email
#elif VF_MODE == 1
#define FUNC is_5321_email
#else
#define FUNC is_5322_email
#endif

#ifdef VF_GLUE_HOST
/* host-name variant: no '[' in the address, the address-literal validators must stay unreached */
static int ip_reached;
int is_ipaddr(const char *s, const char *e) { (void) s; (void) e; ip_reached = 1; return 0; }
int is_ipv4(const char *s, const char *e) { (void) s; (void) e; ip_reached = 1; return 0; }
int is_ipv6(const char *s, const char *e) { (void) s; (void) e; ip_reached = 1; return 0; }
#endif

void harness(void)
{
    unsigned char a[VF_N + 1];
    for (unsigned i = 0; i < VF_N; i++) {
        unsigned char c = nondet_uchar(); a[i] = c | (c == 0);
#ifdef VF_GLUE_HOST
        VF_ASSUME(a[i] != '[');
#endif
    }
#ifdef VF_GLUE_LIT        /* literal variant: x@[ ... ] skeleton concrete, everything else arbitrary */
    a[1] = '@'; a[2] = '['; a[VF_N - 1] = ']';
#endif
    a[VF_N] = 0;
    eav_result_t *r = FUNC((const char *) a, VF_N, false);
    int acc = (r->rc == 0);
    VF_ASSERT(r->rc <= 0, "C16: without TLD checking the result code is 0 or negative");

    long at = -1;
    for (unsigned i = 0; i < VF_N; i++) if (a[i] == '@') at = i;
    int lower = 0, upper = 0;          /* must-accept / may-accept */
    if (at >= 1 && at <= 64 && at < (long) VF_N - 1 && ref_local(VF_MODE, a, (unsigned) at)) {
        const unsigned char *d = a + at + 1;
        unsigned dn = VF_N - (unsigned) at - 1;
        if (d[0] != '[') {
            lower = upper = ref_domain(d, dn, 0);
        } else if (dn >= 3 && d[dn - 1] == ']') {
            const unsigned char *x = d + 1;
            unsigned xn = dn - 2;
            int tagged = xn >= 5 && (x[0] == 'I' || x[0] == 'i') && (x[1] == 'P' || x[1] == 'p') && (x[2] == 'v' || x[2] == 'V') && x[3] == '6' && x[4] == ':';
            int exact_tag = xn >= 5 && memcmp(x, "IPv6:", 5) == 0;
            if (exact_tag) { lower = ref_v6(x + 5, xn - 5, 1); upper = ref_v6(x + 5, xn - 5, 0); }
            else {
                lower = ref_v4(x, xn, 1);
                upper = ref_v4(x, xn, 0) || ref_v6(x, xn, 0) || (tagged && ref_v6(x + 5, xn - 5, 0));   /* untagged spelling / tag case tolerated */
            }
        }
    }
#ifdef VF_GLUE_HOST
    VF_ASSERT(!ip_reached, "C05: no address-literal validation without a '['");
#endif
    VF_ASSERT(!lower || acc, "C01: every address L@D with valid L (1-64 octets) and valid D is accepted");
    VF_ASSERT(!acc || upper, "C01: nothing else is accepted (empty string, missing '@', empty or invalid half)");
    VF_ASSERT(!acc || (r->is_domain + r->is_ipv4 + r->is_ipv6 == 1), "C16: an accepted address reports exactly one form");
    VF_COVER(acc && a[at + 1] != '[', "accepted-hostname");
    VF_COVER(acc && a[at + 1] == '[', "accepted-literal");
    VF_COVER(!acc && at >= 1, "rejected-with-at");
    eav_result_free(r);
    VF_END();
}
