/* Layer A: real is_ascii_domain == reference host-name recogniser.
 *  default      : every NUL-free string of length <= VF_N (full alphabet), NUL at end;
 *  VF_STRUCT=k  : k labels of symbolic length 0..VF_LMAX, optional root dot; every label holds one
 *                 symbolic fill byte except one symbolic position with an arbitrary byte. */
#include <eav.h>
#include "vf.h"
#include "ref_domain.h"

#ifdef LABELS_ALLOW_UNDERSCORE
#define US 1
#else
#define US 0
#endif
#ifndef VF_N
#define VF_N 10
#endif

#ifndef VF_STRUCT
void harness(void)
{
    unsigned char buf[VF_N + 1];
    unsigned n = nondet_uint();
    VF_ASSUME(n <= VF_N);
#ifdef VF_EXACT_N
    n = VF_N;                  /* one query per length */
#endif
#ifdef VF_TAIL_ALIGN     /* terminator = last byte of the object */
    unsigned char *s = buf + (VF_N - n);
#else
    unsigned char *s = buf;
#endif
    for (unsigned i = 0; i < VF_N; i++) {
        unsigned char c = nondet_uchar();
        if (i < n) { VF_ASSUME(c != 0); s[i] = c; }
    }
    s[n] = 0;
    int rc = is_ascii_domain((const char *) s, (const char *) s + n);
    int want = ref_domain(s, n, US);
    VF_ASSERT(rc <= 0, "domain validator returns 0 or a negative code");
    VF_ASSERT((rc == 0) == (want != 0), "C04: host name accepted iff labels/hyphen/length/numeric rules hold");
#ifdef VF_CHECK_CODES
    {
        int bad = 0, alldig = 1, edge = 0, dd = 0, longlab = 0;
        unsigned lab = 0, m = (n >= 2 && s[n - 1] == '.') ? n - 1 : n;
        for (unsigned i = 0; i < VF_N; i++) {
            if (i >= m) break;
            unsigned ch = s[i];
            if (!(ref_ld(ch, US) || ch == '-' || ch == '.')) bad = 1;
            if (!((ch >= '0' && ch <= '9') || ch == '.')) alldig = 0;
            if (ch == '-' && (i == 0 || s[i - 1] == '.' || i + 1 == m || s[i + 1] == '.')) edge = 1;
            if (ch == '.' && (i == 0 || s[i - 1] == '.' || i + 1 == m)) dd = 1;
            if (ch == '.') lab = 0; else if (++lab > 63) longlab = 1;
        }
        if (m == 1 && s[0] == '.') dd = 1;
        VF_ASSERT((rc == -EEAV_DOMAIN_EMPTY) == (n == 0), "C15: 'domain is empty' iff it is empty");
        VF_ASSERT(rc != -EEAV_DOMAIN_INVALID_CHAR || bad, "C15: 'invalid characters' only if a byte outside letters, digits, hyphen, dot is present");
        VF_ASSERT(rc != -EEAV_DOMAIN_NUMERIC || alldig, "C15: 'all-numeric' only if the name is digits and dots");
        VF_ASSERT(rc != -EEAV_DOMAIN_MISPLACED_HYPHEN || edge, "C15: 'misplaced hyphen' only if a hyphen sits at a label edge");
        VF_ASSERT(rc != -EEAV_DOMAIN_MISPLACED_DELIMITER || dd, "C15: 'misplaced delimiter' only for a leading, doubled or dangling dot");
        VF_ASSERT(rc != -EEAV_DOMAIN_LABEL_TOO_LONG || longlab, "C15: 'label is too long' only if a label exceeds 63");
        VF_ASSERT(rc != -EEAV_DOMAIN_TOO_LONG || m > 253, "C15: 'domain is too long' only above 253 characters");
        VF_ASSERT(rc == 0 || (rc <= -EEAV_DOMAIN_EMPTY && rc >= -EEAV_DOMAIN_NUMERIC), "C15: the host-name validator reports only host-name codes");
        VF_COVER(rc == -EEAV_DOMAIN_MISPLACED_DELIMITER, "code-delimiter");
        VF_COVER(rc == -EEAV_DOMAIN_INVALID_CHAR, "code-invalid-char");
    }
#endif
    VF_COVER(rc == 0 && n >= 4 && s[n - 1] == '.', "accepted-root-dot");
    VF_COVER(rc == 0 && n >= 5 && s[1] == '-', "accepted-hyphen");
    VF_COVER(rc == -EEAV_DOMAIN_NUMERIC, "numeric");
    VF_COVER(rc == -EEAV_DOMAIN_MISPLACED_HYPHEN, "misplaced-hyphen");
    VF_END();
}
#else
/* structured family: a buffer of symbolic length n <= VF_MAXLEN holding one symbolic fill byte
 * everywhere except VF_STRUCT symbolic dot positions and two symbolic positions holding
 * arbitrary bytes.  Covers every label length in every position and every total length. */
#ifndef VF_MAXLEN
#define VF_MAXLEN 262
#endif
void harness(void)
{
    unsigned char s[VF_MAXLEN + 1];
    unsigned n = nondet_uint();
    VF_ASSUME(n >= 1 && n <= VF_MAXLEN);
#ifdef VF_MINLEN
    VF_ASSUME(n >= VF_MINLEN);
#endif
#ifdef VF_EXACTLEN     /* constant total length: loop exits are concrete, only the content is symbolic */
    n = VF_EXACTLEN;
#endif
    unsigned char fill = nondet_uchar(), odd1 = nondet_uchar(), odd2 = nondet_uchar();
    VF_ASSUME(fill != 0 && odd1 != 0 && odd2 != 0);
    unsigned o1 = nondet_uint(), o2 = nondet_uint();
#ifdef VF_NOODD
    VF_ASSUME(o1 >= VF_MAXLEN && o2 >= VF_MAXLEN);
#endif
    unsigned d[VF_STRUCT ? VF_STRUCT : 1];
    for (unsigned k = 0; k < VF_STRUCT; k++) d[k] = nondet_uint();
#ifdef VF_EDGE_LIGHT   /* content concrete ('a' labels of 63); only the total length and the root dot are symbolic */
    VF_ASSUME(fill == 'a' && (d[3] == n - 1 || d[3] >= VF_MAXLEN));
#endif
#ifdef VF_FIXDOTS      /* three full 63-byte labels in front: the 253/254 edge with a concrete prefix */
    VF_ASSUME(d[0] == 63 && d[1] == 127 && d[2] == 191 && o1 >= 192 && o2 >= 192);
#endif
    for (unsigned i = 0; i < VF_MAXLEN; i++) {
        unsigned char c = fill;
#ifndef VF_NOODD
        if (i == o1) c = odd1;
        if (i == o2) c = odd2;
#endif
        for (unsigned k = 0; k < VF_STRUCT; k++)
            if (i == d[k]) c = '.';
#ifdef VF_FIXDOTS
        if (i < 192) { s[i] = (i % 64 == 63) ? '.' : 'a'; continue; }     /* concrete prefix: 3 labels of 63 */
#endif
        s[i] = (i < n) ? c : 0;
    }
    s[VF_MAXLEN] = 0;
    int rc = is_ascii_domain((const char *) s, (const char *) s + n);
    int want = ref_domain(s, n, US);
    VF_ASSERT((rc == 0) == (want != 0), "C04: host name accepted iff labels/hyphen/length/numeric rules hold (structured family)");
    VF_COVER(rc == -EEAV_DOMAIN_LABEL_TOO_LONG, "rejected-label-too-long");
    VF_COVER(rc == 0 && n >= 64 && s[63] == '.', "accepted-label-63");
    VF_COVER(rc == 0 && n == 253, "accepted-total-253");
    VF_COVER(rc == 0 && n == 254, "accepted-total-253-plus-root");
    VF_COVER(rc == -EEAV_DOMAIN_TOO_LONG && n == 254, "rejected-254");
    VF_END();
}
#endif
