/* Layer A: real is_ipv4 / is_ipv6 / is_ipaddr between the lower (RFC 5321 4.1.3) and upper
 * (RFC 4291 text) reference recognisers, on every NUL-free string of length <= VF_N followed by
 * ctx in {0: NUL, 1: "]" NUL, 2: "]" + one arbitrary byte + NUL}.  VF_FN: 4, 6, 0 (is_ipaddr). */
#include <eav.h>
#include "vf.h"
#include "ref_ip.h"

#ifndef VF_N
#define VF_N 10
#endif
#ifndef VF_CTX
#define VF_CTX 2
#endif
#ifndef VF_FN
#define VF_FN 4
#endif

#ifdef VF_STUB_V4
/* is_ipv4 replaced (its body is removed from the unit) by an uninterpreted verdict constrained,
 * after the call, by the sandwich proved for the real is_ipv4 in the ipv4 query:
 * L4 => accepted => U4. */
static int v4_calls;
static const char *v4_s, *v4_e;
static bool v4_verdict;
int is_ipv4(const char *start, const char *end)
{
    v4_calls++; v4_s = start; v4_e = end;
    return v4_verdict ? 1 : 0;
}
#if VF_FN == 0
static int v6_calls;
static const char *v6_s, *v6_e;
static bool v6_verdict;
int is_ipv6(const char *start, const char *end)
{
    v6_calls++; v6_s = start; v6_e = end;
    return v6_verdict ? 1 : 0;
}
#endif
#endif

void harness(void)
{
    unsigned char buf[VF_N + VF_CTX + 1];
    unsigned n = nondet_uint(), c = nondet_uint();
    VF_ASSUME(n <= VF_N && c <= VF_CTX);
#ifdef VF_EXACT_N
    n = VF_N;                  /* one query per length */
#endif
#ifdef VF_TAIL_ALIGN     /* terminator = last byte of the object */
    unsigned char *s = buf + ((VF_N + VF_CTX) - (n + c));
#else
    unsigned char *s = buf;
#endif
#ifdef VF_STRUCT6
    /* structured family to full length: one symbolic hex-digit fill, ':' at up to 9 and '.' at up to 4
     * symbolic positions, one arbitrary byte at a symbolic position: every IPv6 shape (groups before /
     * after '::', group widths 0-5 and more, dotted-quad tail) */
    unsigned char fill = nondet_uchar(), odd = nondet_uchar();
    VF_ASSUME(ref_ishex(fill) && odd != 0);
    unsigned cp[9], dp[4], op = nondet_uint();
    for (unsigned k = 0; k < 9; k++) cp[k] = nondet_uint();
    for (unsigned k = 0; k < 4; k++) dp[k] = nondet_uint();
#endif
    for (unsigned i = 0; i < VF_N + VF_CTX; i++) {
        if (i >= n + c) break;
        s[i] = nondet_uchar();
        VF_ASSUME(s[i] != 0);
#ifdef VF_STRUCT6
        if (i < n) {
            unsigned char ch = fill;
            for (unsigned k = 0; k < 9; k++) if (i == cp[k]) ch = ':';
            for (unsigned k = 0; k < 4; k++) if (i == dp[k]) ch = '.';
            if (i == op) ch = odd;
            s[i] = ch;
        }
#endif
#ifdef VF_ALPHABET_IP        /* restrict content to the bytes an address can contain plus one arbitrary other byte */
        if (i < n) VF_ASSUME(ref_ishex(s[i]) || s[i] == ':' || s[i] == '.' || s[i] == 'x');
#endif
    }
    if (c >= 1) s[n] = ']';
    s[n + c] = 0;
    const char *b = (const char *) s, *e = (const char *) s + n;
    int colon = 0;
    for (unsigned i = 0; i < n; i++) if (s[i] == ':') colon = 1;
#if VF_FN == 4
    int r = is_ipv4(b, e);
    VF_ASSERT(r == 0 || r == 1, "is_ipv4 returns YES or NO");
    VF_ASSERT(!r || ref_v4(s, n, 0), "C05: is_ipv4 accepts only four decimal octets 0-255 separated by single dots");
    VF_ASSERT(r || !ref_v4(s, n, 1), "C05: every dotted quad of 1-3 digit octets <= 255 with non-zero first octet is accepted");
    VF_COVER(r && n >= 15, "accepted-long-quad");
    VF_COVER(r && n == 7, "accepted-short-quad");
    VF_COVER(!r && ref_v4(s, n, 0), "between-bounds");
#elif VF_FN == 6
#ifdef VF_STUB_V4
    v4_verdict = nondet_bool();
#endif
    int r = is_ipv6(b, e);
#ifdef VF_STUB_V4
    VF_ASSERT(v4_calls <= 1, "is_ipv6 consults is_ipv4 at most once");
    if (v4_calls == 1) {
        VF_ASSERT(v4_e == e && v4_s >= b && v4_s <= e, "C05: the dotted-quad tail handed to is_ipv4 lies inside the range and ends at its end");
        unsigned off = (unsigned) (v4_s - b);
        VF_ASSUME(!ref_v4(s + off, n - off, 1) || v4_verdict);
        VF_ASSUME(!v4_verdict || ref_v4(s + off, n - off, 0));
    }
#endif
    VF_ASSERT(r == 0 || r == 1, "is_ipv6 returns YES or NO");
    VF_ASSERT(!r || ref_v6(s, n, 0), "C05: is_ipv6 accepts only RFC 4291 text forms");
    VF_ASSERT(r || !ref_v6(s, n, 1), "C05: every RFC 5321 4.1.3 IPv6 form is accepted");
    VF_COVER(r && n >= 9 && s[n - 2] == '.', "accepted-v4-tail");
    VF_COVER(r && n == 2, "accepted-double-colon");
    VF_COVER(r && n >= 5 && s[n - 1] == ':', "accepted-trailing-dc");
#else
    /* A3: is_ipaddr only dispatches; both callees are uninterpreted verdicts here */
    v4_verdict = nondet_bool();
    v6_verdict = nondet_bool();
    int r = is_ipaddr(b, e);
    VF_ASSERT(v4_calls + v6_calls == 1, "C05: is_ipaddr consults exactly one family validator");
    if (colon) {
        VF_ASSERT(v6_calls == 1 && v6_s == b && v6_e == e, "C05: a ':' inside the range selects the IPv6 validator on the same range");
        VF_ASSERT(r == (v6_verdict ? 1 : 0), "C05: the IPv6 verdict is returned unchanged");
    } else {
        VF_ASSERT(v4_calls == 1 && v4_s == b && v4_e == e, "C05: no ':' inside the range selects the IPv4 validator on the same range");
        VF_ASSERT(r == (v4_verdict ? 1 : 0), "C05: the IPv4 verdict is returned unchanged");
    }
    VF_COVER(r && colon, "accepted-v6");
    VF_COVER(r && !colon, "accepted-v4");
#endif
    VF_END();
}
