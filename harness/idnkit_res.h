/* idnkit resource model (C18): contexts are heap objects; create/destroy are counted and a
 * destroy or use of a dead context is a dereference of a freed object. */
#ifndef IDNKIT_RES_H
#define IDNKIT_RES_H
#ifdef HAVE_IDNKIT
#include <stdlib.h>
#include <idn/api.h>
#include "vf.h"
static int ik_live, ik_created, ik_destroyed;
static bool ik_bad_destroy;
idn_result_t idn_resconf_initialize(void) { return idn_success; }
idn_result_t idn_resconf_create(idn_resconf_t *ctxp)
{
    struct vf_idn_resconf *c = malloc(sizeof *c);
    VF_ASSUME(c != NULL);
    c->live = 1; c->serial = ++ik_created;
    ik_live++;
    *ctxp = c;
    return idn_success;
}
void idn_resconf_destroy(idn_resconf_t ctx)
{
    if (ctx == NULL || ctx->live != 1) ik_bad_destroy = true;     /* reading a freed context is itself a failure */
    ctx->live = 0;
    ik_live--; ik_destroyed++;
    free(ctx);
}
#endif
#endif
