/* C06: no read of an uninitialised eav_t field.  Self-composition: two eav_t objects with
 * INDEPENDENT arbitrary initial bytes run the same API sequence with the same settings, address
 * and callback results; the goto program is instrumented with `goto-instrument --branch vf_branch`
 * so that every branch of every function reports taken/not-taken.  Outputs and branch traces of
 * the two runs must be identical: a field read before it is written shows up as a diverging
 * branch (or a diverging output). */
#include <stdlib.h>
#include <eav.h>
#include <eav/auto_tld.h>
#include "vf.h"
#include "idnkit_res.h"
#ifdef HAVE_LIBIDN
#include <idna.h>
#endif

static unsigned long br_hash[3];
static unsigned br_cnt[3];
static int cur = 2;            /* slot 2 collects the harness's own branches (discarded) */

void vf_branch(const char *what)
{
    br_hash[cur] = br_hash[cur] * 31 + (what[0] == 't' ? 1 : 2);
    br_cnt[cur]++;
}

/* callbacks: same pre-drawn result in both runs, no memo, no data-dependent branch */
static int d_rc, d_idn;
static bool d_v4, d_v6, d_dom;
static int cb_mode;
static eav_result_t *mk(int mode)
{
    eav_result_t *r = malloc(sizeof *r);
    VF_ASSUME(r != NULL);
    r->is_ipv4 = d_v4; r->is_ipv6 = d_v6; r->is_domain = d_dom; r->rc = d_rc; r->idn_rc = d_idn;
#ifdef EAV_EXTRA
    r->lpart = NULL; r->domain = NULL;
#endif
    cb_mode = mode;
    return r;
}
eav_result_t *is_822_email(const char *e, size_t l, bool t)  { (void) e; (void) l; (void) t; return mk(0); }
eav_result_t *is_5321_email(const char *e, size_t l, bool t) { (void) e; (void) l; (void) t; return mk(1); }
eav_result_t *is_5322_email(const char *e, size_t l, bool t) { (void) e; (void) l; (void) t; return mk(2); }
#ifdef HAVE_IDNKIT
eav_result_t *is_6531_email(idn_resconf_t c, idn_action_t a, const char *e, size_t l, bool t) { (void) c; (void) a; (void) e; (void) l; (void) t; return mk(3); }
#else
eav_result_t *is_6531_email(const char *e, size_t l, bool t) { (void) e; (void) l; (void) t; return mk(3); }
#endif
static const char k_idnmsg[] = "idn-message";
#if defined(HAVE_LIBIDN2)
const char *idn2_strerror(int rc) { (void) rc; return k_idnmsg; }
#elif defined(HAVE_LIBIDN)
const char *idna_strerror(Idna_rc rc) { (void) rc; return k_idnmsg; }
#elif defined(HAVE_IDNKIT)
const char *idn_result_tostring(idn_result_t rc) { (void) rc; return k_idnmsg; }
#endif

static int s_rfc, s_allow; static bool s_tld, s_set;
static int o_setup[3], o_ret[3], o_err[3];
static const char *o_msg[3], *o_msg0[3];

static void run(eav_t *e)
{
    eav_init(e);
    o_msg0[cur] = eav_errstr(e);
    if (s_set) { e->rfc = s_rfc; e->tld_check = s_tld; e->allow_tld = s_allow; }
    o_setup[cur] = eav_setup(e);
    if (o_setup[cur] == 0) {
        o_ret[cur] = eav_is_email(e, "a", 1);
        o_err[cur] = e->errcode;
    }
    o_msg[cur] = eav_errstr(e);
    eav_free(e);
}

void harness(void)
{
    eav_t e1, e2;
    unsigned char *p1 = (unsigned char *) &e1, *p2 = (unsigned char *) &e2;
    for (unsigned i = 0; i < sizeof(eav_t); i++) { p1[i] = nondet_uchar(); p2[i] = nondet_uchar(); }
    s_set = nondet_bool(); s_rfc = nondet_int(); s_allow = nondet_int(); s_tld = nondet_bool();
    d_rc = nondet_int();
    VF_ASSUME((d_rc <= 0 && d_rc > -EEAV_MAX) || (d_rc >= TLD_TYPE_NOT_ASSIGNED && d_rc <= TLD_TYPE_RETIRED));
    d_idn = nondet_int(); d_v4 = nondet_bool(); d_v6 = nondet_bool(); d_dom = nondet_bool();
    cur = 0; run(&e1);
    cur = 1; run(&e2);
    cur = 2;
    VF_ASSERT(o_setup[0] == o_setup[1] && o_ret[0] == o_ret[1] && o_err[0] == o_err[1] && o_msg[0] == o_msg[1] && o_msg0[0] == o_msg0[1],
              "C06: outputs do not depend on the bytes the eav_t held before eav_init");
    VF_ASSERT(br_cnt[0] == br_cnt[1] && br_hash[0] == br_hash[1],
              "C06: control flow does not depend on the bytes the eav_t held before eav_init (no uninitialised field is read)");
    VF_COVER(br_cnt[0] >= 5, "branches-recorded");
    VF_COVER(o_setup[0] == 0 && o_ret[0] == 1, "accepted");
    VF_END();
}
