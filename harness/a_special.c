/* Layer A (C09): real is_special_domain on every VALID host name without root dot of length
 * <= VF_N: non-zero iff the last label is test/example/invalid/localhost/onion or the last two
 * labels are example.{com,net,org}; whole labels, case-insensitive.
 * VF_SUFFIX: structured family - 0..3 leading labels of symbolic length, then a symbolic
 * suffix of <= VF_SFX bytes (arbitrary LDH/dot bytes). */
#include <eav.h>
#include "vf.h"
#include "ref_domain.h"

#ifndef VF_N
#define VF_N 12
#endif

void harness(void)
{
    unsigned char buf[VF_N + 1];
    unsigned n = nondet_uint();
    VF_ASSUME(n >= 1 && n <= VF_N);
#ifdef VF_EXACT_N
    n = VF_N;                  /* one query per length */
#endif
#ifdef VF_TAIL_ALIGN     /* terminator = last byte of the object */
    unsigned char *s = buf + (VF_N - n);
#else
    unsigned char *s = buf;
#endif
#ifdef VF_PREFIXLEN
    /* leading part: VF_PREFIXLEN bytes, one symbolic fill letter with up to 3 dots at symbolic positions */
    unsigned char fill = nondet_uchar();
    VF_ASSUME((fill >= 'a' && fill <= 'z') || (fill >= '0' && fill <= '9'));
    unsigned d0 = nondet_uint(), d1 = nondet_uint(), d2 = nondet_uint(), cut = nondet_uint();
    VF_ASSUME(cut <= VF_PREFIXLEN);          /* the prefix occupies [0, cut) */
#endif
#ifdef VF_SHAPE_P1
    /* concrete-shape family: leading labels of CONCRETE lengths VF_SHAPE_P1 (and VF_SHAPE_P2, 0 = none) made of one
     * symbolic letter, then an arbitrary suffix: n = prefix + suffix length */
    unsigned char sfill = nondet_uchar();
    VF_ASSUME((sfill >= 'a' && sfill <= 'z') || (sfill >= 'A' && sfill <= 'Z') || (sfill >= '0' && sfill <= '9'));
#define SHAPE_PRE (VF_SHAPE_P1 + 1 + (VF_SHAPE_P2 ? VF_SHAPE_P2 + 1 : 0))
    VF_ASSUME(n >= SHAPE_PRE);
#endif
    for (unsigned i = 0; i < VF_N; i++) {
        unsigned char c = nondet_uchar();
#ifdef VF_SHAPE_P1
        if (i < SHAPE_PRE) c = (i == VF_SHAPE_P1 || (VF_SHAPE_P2 && i == VF_SHAPE_P1 + 1 + VF_SHAPE_P2)) ? '.' : sfill;
#endif
#ifdef VF_PREFIXLEN
#ifdef VF_DOTS          /* fewer symbolic dot positions */
        if (i < cut) c = ((VF_DOTS >= 1 && i == d0) || (VF_DOTS >= 2 && i == d1) || (VF_DOTS >= 3 && i == d2)) ? '.' : fill;
#else
        if (i < cut) c = (i == d0 || i == d1 || i == d2) ? '.' : fill;
#endif
#endif
        if (i < n) { VF_ASSUME(c != 0); s[i] = c; }
    }
    s[n] = 0;
#ifdef VF_TAILLAB
    /* the last VF_TAILLAB + 1 bytes are a dot and a label of that CONCRETE length made of one symbolic letter */
    {
        unsigned char tf = nondet_uchar();
        VF_ASSUME(tf != 0 && tf != '.');
        VF_ASSUME(n == VF_N);
        for (unsigned i = 0; i < VF_N; i++)
            if (i >= VF_N - VF_TAILLAB - 1) s[i] = (i == VF_N - VF_TAILLAB - 1) ? '.' : tf;
    }
#endif
#ifdef VF_MEMSAFE
    /* C06: ANY NUL-terminated input through the public entry point: only the memory-safety / UB
     * obligations CBMC generates are checked here, no functional claim */
    (void) is_special_domain((const char *) s, (const char *) s + n);
    VF_END();
    return;
#endif
    VF_ASSUME(ref_domain(s, n, 0));          /* the library only asks about valid host names */
    VF_ASSUME(s[n - 1] != '.');              /* without root dot */
    int r = is_special_domain((const char *) s, (const char *) s + n);
    int want = ref_reserved(s, n);
    VF_ASSERT((r != 0) == (want != 0), "C09: classified special iff last label reserved or last two labels example.{com,net,org}");
    VF_COVER(r != 0 && n >= 9 && s[n - 4] == '.', "special-second-level");
    VF_COVER(r != 0 && n >= 6 && s[n - 5] == '.', "special-tld-after-label");
    VF_COVER(r != 0 && n == 4, "special-bare");
    VF_COVER(r == 0 && n >= 8, "not-special");
    VF_END();
}
