/* vf.h - harness vocabulary, compiled two ways:
 *   goto-cc (__CPROVER__): nondet_* are solver variables, VF_ASSERT is a proof obligation;
 *   gcc -DVF_NATIVE: nondet_* replay the values of a solver trace, VF_ASSERT reports. */
#ifndef VF_H
#define VF_H
#include <stddef.h>
#include <stdbool.h>

unsigned char nondet_uchar(void);
int nondet_int(void);
unsigned nondet_uint(void);
size_t nondet_size_t(void);
bool nondet_bool(void);

#ifndef VF_NATIVE
#define VF_ASSUME(c)        __CPROVER_assume(c)
#define VF_ASSERT(c, msg)   __CPROVER_assert((c), msg)
#define VF_COVER(c, label)  do { if (c) __CPROVER_assert(0, "VF_COVER:" label); } while (0)
#else
void vf_assume_fail(const char *c);
void vf_assert_fail(const char *msg);
void vf_cover_hit(const char *label);
#define VF_ASSUME(c)        do { if (!(c)) vf_assume_fail(#c); } while (0)
#define VF_ASSERT(c, msg)   do { if (!(c)) vf_assert_fail(msg); } while (0)
#define VF_COVER(c, label)  do { if (c) vf_cover_hit(label); } while (0)
#endif

/* always reached at the end of a harness: the vacuity witness */
#define VF_END()            VF_COVER(1, "end")

void harness(void);
#endif
