/* vf.h - harness vocabulary, compiled two ways:
 *   goto-cc (__CPROVER__): nondet_* are solver variables, VF_ASSERT is a proof obligation;
 *   gcc -DVF_NATIVE: nondet_* replay the values of a solver trace, VF_ASSERT reports. */
#ifndef VF_H
#define VF_H
#include <stddef.h>
#include <stdbool.h>

#ifndef VF_NATIVE
/* every draw is written to a global so that it shows up in the counterexample trace
 * (a direct "x = nondet()" assignment leaves no separate step) */
unsigned char nondet_raw_uchar(void);
int nondet_raw_int(void);
unsigned nondet_raw_uint(void);
size_t nondet_raw_size_t(void);
static unsigned char vf_draw_uchar;
static int vf_draw_int;
static unsigned vf_draw_uint;
static size_t vf_draw_size_t;
static unsigned char vf_draw_bool;
static inline unsigned char nondet_uchar(void) { unsigned char v = nondet_raw_uchar(); vf_draw_uchar = v; return v; }
static inline int nondet_int(void) { int v = nondet_raw_int(); vf_draw_int = v; return v; }
static inline unsigned nondet_uint(void) { unsigned v = nondet_raw_uint(); vf_draw_uint = v; return v; }
static inline size_t nondet_size_t(void) { size_t v = nondet_raw_size_t(); vf_draw_size_t = v; return v; }
static inline bool nondet_bool(void) { unsigned char v = nondet_raw_uchar(); __CPROVER_assume(v <= 1); vf_draw_bool = v; return v != 0; }
#else
unsigned char nondet_uchar(void);
int nondet_int(void);
unsigned nondet_uint(void);
size_t nondet_size_t(void);
bool nondet_bool(void);
#endif

#ifndef VF_NATIVE
#define VF_ASSUME(c)        __CPROVER_assume(c)
#define VF_ASSERT(c, msg)   __CPROVER_assert((c), msg)
#define VF_COVER(c, label)  do { if (c) __CPROVER_assert(0, "VF_COVER:" label); } while (0)
#else
void vf_assume_fail(const char *c);
void vf_assert_fail(const char *msg);
void vf_cover_hit(const char *label);
#define VF_ASSUME(c)        do { if (!(c)) vf_assume_fail(#c); } while (0)
#define VF_ASSERT(c, msg)   do { if (!(c)) vf_assert_fail(msg); } while (0)
#define VF_COVER(c, label)  do { if (c) vf_cover_hit(label); } while (0)
#endif

/* native replay: drop a harness-side copy of a pointer so that LeakSanitizer sees a leaked block as unreachable */
#ifdef VF_NATIVE
#define VF_FORGET(p)        ((p) = 0)
#else
#define VF_FORGET(p)        ((void) 0)
#endif

/* always reached at the end of a harness: the vacuity witness */
#define VF_END()            VF_COVER(1, "end")

void harness(void);
#endif
