/* Layer B: the real partial/<backend>/is_utf8_domain.c with the IDN converter as an
 * uninterpreted function (contract K1: an error code, or OK with a NUL-terminated heap string)
 * and recording stubs for is_ascii_domain / is_special_domain / is_tld.
 * (C04c, C07-B, C09-B, C10, C19) */
#include <stdlib.h>
#include <string.h>
#include <eav.h>
#include <eav/auto_tld.h>
#include "vf.h"
#define LS_NO_LOCAL
#define LS_NO_IP
#define LS_NO_UDOM
#include "leafstubs.h"

#ifndef VF_N
#define VF_N 8          /* input length bound */
#endif
#ifndef VF_M
#define VF_M 8          /* converter output length bound */
#endif

static int conv_calls;
static const char *conv_input;
static int conv_rc;
static unsigned char *conv_out;
static unsigned char conv_copy[VF_M + 1];   /* harness-side copy: the library frees the buffer */
static unsigned conv_len;
static bool conv_stored;

#ifndef HAVE_IDNKIT
static int converter(const char *input, char **output)
{
    conv_calls++;
    conv_input = input;
    conv_rc = nondet_int();                       /* any of the 2^32 codes */
    bool store = (conv_rc == 0) ? true : nondet_bool();   /* on failure: with or without an output buffer */
    if (store) {
        conv_len = nondet_uint();
        VF_ASSUME(conv_len <= VF_M);
        conv_out = malloc(VF_M + 1);
        VF_ASSUME(conv_out != NULL);
        for (unsigned i = 0; i < VF_M; i++) {
            unsigned char c = nondet_uchar();
            conv_out[i] = (i < conv_len) ? (unsigned char) (c | (c == 0)) : 0;     /* NUL-free up to the terminator */
            conv_copy[i] = conv_out[i];
        }
        conv_out[VF_M] = 0;
        *output = (char *) conv_out;
        conv_stored = true;
        ls_base = (const char *) conv_out;
        ls_buflen = conv_len;
    }
    return conv_rc;
}
#endif

#if defined(HAVE_IDNKIT)
#include <idn/api.h>
static struct vf_idn_resconf the_ctx = { 1, 1 };
static bool conv_bad_args;
idn_result_t idn_res_encodename(idn_resconf_t ctx, idn_action_t actions, const char *from, char *to, size_t tolen)
{
    conv_calls++;
    conv_input = from;
    /* room for any valid host name: 253 characters + root dot + terminator */
    if (ctx != &the_ctx || actions != IDN_ENCODE_REGIST || tolen < 255) conv_bad_args = true;
    to[tolen - 1] = 0;                   /* the announced size must really be there (bounds-checked) */
    conv_rc = nondet_int();
    if (conv_rc == idn_success) {
        conv_len = nondet_uint();
        VF_ASSUME(conv_len <= VF_M);
        conv_out = (unsigned char *) to;
        for (unsigned i = 0; i < VF_M; i++) {
            unsigned char c = nondet_uchar();
            conv_out[i] = (i < conv_len) ? (unsigned char) (c | (c == 0)) : 0;
            conv_copy[i] = conv_out[i];
        }
        conv_out[VF_M] = 0;
        conv_stored = true;
        ls_base = to;
        ls_buflen = conv_len;
    }
    return conv_rc;
}
#define OKCODE 0
#elif defined(HAVE_LIBIDN2)
int idn2_to_ascii_8z(const char *input, char **output, int flags) { (void) flags; return converter(input, output); }
int idn2_lookup_ul(const char *input, char **output, int flags) { (void) flags; return converter(input, output); }
void idn2_free(void *p) { free(p); }      /* libidn2's deallocator is free() */
#define OKCODE 0
#elif defined(HAVE_LIBIDN)
#include <idna.h>
int idna_to_ascii_lz(const char *input, char **output, int flags) { (void) flags; return converter(input, output); }
#define OKCODE 0
#endif

void harness(void)
{
    unsigned char in[VF_N + 1];
    unsigned n = nondet_uint();
    VF_ASSUME(n <= VF_N);
#ifdef VF_EXACT_N
    n = VF_N;                  /* long inputs: the converter alone decides, whatever the UTF-8 byte count */
#endif
    for (unsigned i = 0; i < VF_N; i++) {
        unsigned char c = nondet_uchar();
        in[i] = (i < n) ? (c | (c == 0)) : 0;
    }
    in[VF_N] = 0;
    bool tld_check = nondet_bool();
    int r = nondet_int();                 /* caller's idn_rc cell, arbitrary before the call */
    int r0 = r;

#ifdef HAVE_IDNKIT
    int rc = is_utf8_domain(&the_ctx, IDN_ENCODE_REGIST, &r, (const char *) in, (const char *) in + n, tld_check);
    VF_ASSERT(!conv_bad_args, "C18: the converter is given the caller's context and actions and a buffer with room for the terminator");
#else
    int rc = is_utf8_domain(&r, (const char *) in, (const char *) in + n, tld_check);
#endif

    if (n == 0) {
        VF_ASSERT(rc == -EEAV_DOMAIN_EMPTY && conv_calls == 0 && ls_n == 0, "empty domain: DOMAIN_EMPTY, nothing consulted");
        VF_ASSERT(r == r0, "empty domain: the IDN code cell is untouched");
    } else {
        VF_ASSERT(conv_calls == 1 && conv_input == (const char *) in, "C10: the converter is called once on the domain");
        VF_ASSERT(r == conv_rc, "C19: the IDN library's code is reported to the caller");
        VF_ASSERT(!ls_bad_range, "C10: the leaf validators only see the converter's output");
        if (conv_rc != OKCODE) {
            VF_ASSERT(rc == -EEAV_IDN_ERROR, "C19: any IDN failure is rejected with EEAV_IDN_ERROR");
            VF_ASSERT(ls_n == 0, "C19: after an IDN failure nothing is treated as a domain (no validator consulted)");
#ifndef HAVE_IDNKIT
            VF_COVER(conv_stored, "fault-with-buffer");
#endif
            VF_COVER(!conv_stored, "fault-without-buffer");
        } else {
            VF_ASSERT(ls_only(F_ADOM, 0, conv_len),
                      "C04: host-name rules are applied to exactly the A-label form produced by the converter");
            int drc = ls_value(F_ADOM, 0, conv_len)->ret;
            if (drc != 0) {
                VF_ASSERT(rc == drc, "C04: a host-name error on the A-label form is returned unchanged");
            } else if (!tld_check) {
                VF_ASSERT(rc == 0, "C08: TLD checking off: accepted whatever the reserved list and the TLD table would say");
                VF_COVER(1, "accepted");
            } else {
                VF_ASSERT(ls_only(F_SPECIAL, 0, conv_len), "C09: the reserved check is applied to the whole A-label domain");
                long dot = -1;
                for (unsigned i = 0; i < conv_len; i++)
                    if (conv_copy[i] == '.') dot = i;
                if (ls_value(F_SPECIAL, 0, conv_len)->ret != 0) {
                    VF_ASSERT(rc == TLD_TYPE_SPECIAL, "C09: a reserved domain is class special whatever the TLD table says");
                    VF_COVER(1, "special");
                } else if (dot < 0) {
                    VF_ASSERT(rc == -EEAV_DOMAIN_NOT_FQDN, "C07: single-label non-reserved domain is not FQDN");
                    VF_COVER(1, "not-fqdn");
                } else {
                    VF_ASSERT(ls_only(F_TLD, dot + 1, conv_len),
                              "C07: TLD lookup on exactly the last A-label (after the last dot of the converter output)");
                    VF_ASSERT(rc == ls_value(F_TLD, dot + 1, conv_len)->ret, "C07: the class / invalid-TLD code is returned unchanged");
                    VF_COVER(rc > 0, "tld-class");
                }
            }
        }
    }
    VF_FORGET(conv_out); VF_FORGET(ls_base);
    VF_END();
    /* --memory-leak-check: the converter's buffer must have been freed exactly once */
}
