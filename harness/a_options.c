/* C17: build options as a product program.  The affected units are compiled once per option
 * under renamed symbols and all variants are linked into this one harness:
 *   is_6531_local__v0 (default)  __v1 (-DRFC6531_FOLLOW_RFC20)  __v2 (-DRFC6531_FOLLOW_RFC5322)  __v3 (both)
 *   is_ascii_domain (default)    is_ascii_domain__us (-DLABELS_ALLOW_UNDERSCORE) */
#include <eav.h>
#include "vf.h"
#include "ref_local.h"

#ifndef VF_N
#define VF_N 7
#endif
#ifndef VF_CTX
#define VF_CTX 1
#endif

int is_6531_local__v0(const char *, const char *);
int is_6531_local__v1(const char *, const char *);
int is_6531_local__v2(const char *, const char *);
int is_6531_local__v3(const char *, const char *);
int is_ascii_domain__us(const char *, const char *);

static int rfc20(unsigned c) { return c == '#' || c == '^' || c == '`' || c == '{' || c == '|' || c == '}' || c == '~'; }

/* does an (accepted) local part have an RFC 20 national character outside quotes? */
static int rfc20_outside_quotes(const unsigned char *s, unsigned n)
{
    int inq = 0, esc = 0, hit = 0;
    for (unsigned i = 0; i < VF_N; i++) {
        if (i >= n) break;
        unsigned c = s[i];
        if (!inq) { if (c == '"') inq = 1; else if (rfc20(c)) hit = 1; }
        else if (esc) esc = 0;
        else if (c == '\\') esc = 1;
        else if (c == '"') inq = 0;
    }
    return hit;
}

void harness(void)
{
    unsigned char s[VF_N + VF_CTX + 1];
    unsigned n = nondet_uint(), c = nondet_uint();
    VF_ASSUME(n <= VF_N && c <= VF_CTX);
#ifdef VF_EXACT_N
    n = VF_N;                  /* one query per length */
#endif
    for (unsigned i = 0; i < VF_N + VF_CTX; i++) {
        unsigned char b = nondet_uchar();
#if VF_OPT == 5322
        VF_ASSUME(b < 0x80 || i >= n);       /* pure-ASCII local parts */
#endif
        s[i] = (i < n + c) ? (b | (b == 0)) : 0;
    }
    s[VF_N + VF_CTX] = 0;
    const char *b = (const char *) s, *e = (const char *) s + n;
#if VF_OPT == 20
    int r0 = is_6531_local__v0(b, e), r1 = is_6531_local__v1(b, e);
    VF_ASSERT(r0 == 0 || r1 != 0, "C17: RFC6531_FOLLOW_RFC20 accepts nothing the default build rejects");
    if (r0 == 0)
        VF_ASSERT((r1 != 0) == (rfc20_outside_quotes(s, n) != 0),
                  "C17: RFC6531_FOLLOW_RFC20 rejects exactly the local parts with # ^ ` { | } ~ outside quotes");
    VF_COVER(r0 == 0 && r1 != 0, "rfc20-rejects");
    VF_COVER(r0 == 0 && r1 == 0 && n >= 3 && s[0] == '"' && rfc20(s[1]), "rfc20-char-inside-quotes-kept");
#elif VF_OPT == 5322
    int r2 = is_6531_local__v2(b, e), w = is_5322_local(b, e);
    VF_ASSERT((r2 == 0) == (w == 0), "C17: RFC6531_FOLLOW_RFC5322 makes mode 6531 judge pure-ASCII local parts as mode 5322 does");
    VF_COVER(r2 == 0 && n >= 3 && s[0] == '"' && s[1] == ' ', "accept-quoted-space");
    VF_COVER(r2 != 0 && n >= 2, "reject");
#elif VF_OPT == 2032
    int r2 = is_6531_local__v2(b, e), r3 = is_6531_local__v3(b, e);
    VF_ASSERT(r2 == 0 || r3 != 0, "C17: options act independently (both on accepts nothing RFC5322-only rejects)");
    if (r2 == 0)
        VF_ASSERT((r3 != 0) == (rfc20_outside_quotes(s, n) != 0), "C17: with both options on, RFC20 removes exactly the RFC20 characters outside quotes");
    VF_COVER(r2 == 0 && r3 != 0, "rfc20-rejects");
#elif VF_OPT == 95
    /* underscore: s with every '_' replaced by a letter */
    unsigned char t[VF_N + 1];
    int has = 0;
    for (unsigned i = 0; i < VF_N; i++) { t[i] = (s[i] == '_' && i < n) ? 'x' : (i < n ? s[i] : 0); if (i < n && s[i] == '_') has = 1; }
    t[VF_N] = 0;
    s[n] = 0;                         /* a domain ends at the terminator */
    int d = is_ascii_domain(b, e), u = is_ascii_domain__us(b, e), dx = is_ascii_domain((const char *) t, (const char *) t + n);
    VF_ASSERT((u == 0) == (dx == 0), "C17: LABELS_ALLOW_UNDERSCORE accepts exactly the host names that become valid when '_' counts as a letter");
    VF_ASSERT(has || u == d, "C17: without '_' in the name the option changes nothing (same code)");
    VF_ASSERT(d != 0 || u == 0, "C17: the option only adds host names");
    VF_COVER(u == 0 && d != 0, "underscore-accepted");
#endif
    VF_END();
}
