/* Layer C, one validation: real eav_init / eav_setup / eav_is_email / eav_errstr / eav_free
 * with the four callbacks uninterpreted.  No bound: allow_tld and rfc are unconstrained ints,
 * the callback result ranges over every documented code.   (C08, C15, C01-C, C06-abort) */
#include <stdlib.h>
#include <string.h>
#include <eav.h>
#include "vf.h"
#define CB_ADDRS 1
#include "cbstubs.h"

static int contains(const char *hay, const char *needle)
{
    for (unsigned i = 0; hay[i] != 0; i++) {
        unsigned j = 0;
        while (needle[j] != 0 && hay[i + j] == needle[j]) j++;
        if (needle[j] == 0) return 1;
    }
    return needle[0] == 0;
}

void harness(void)
{
    eav_t e;
    cb_garbage(&e, sizeof e);            /* eav_t on the stack / uninitialised heap */
    eav_init(&e);

    VF_ASSERT(e.rfc == EAV_RFC_6531, "C08: eav_init selects mode 6531");
    VF_ASSERT(e.tld_check == true, "C08: eav_init turns TLD checking on");
    VF_ASSERT(e.allow_tld == (EAV_TLD_COUNTRY_CODE | EAV_TLD_GENERIC | EAV_TLD_GENERIC_RESTRICTED |
                              EAV_TLD_INFRASTRUCTURE | EAV_TLD_SPONSORED | EAV_TLD_SPECIAL),
              "C08: eav_init allows every class except not-assigned, test and retired");
    VF_ASSERT(CB_SAME_MSG(eav_errstr(&e), cb_msg_of(EEAV_NO_ERROR)), "C15: a fresh object reports no error");

    /* C15: every code has a non-empty message that names its condition (keyword taken from the code's name) */
    {
        static const struct { int code; const char *kw; } want[] = {
            { EEAV_NO_ERROR, "no error" }, { EEAV_INVALID_RFC, "RFC" }, /* EEAV_IDN_ERROR: the IDN library's own message */ { EEAV_EMAIL_EMPTY, "empty" },
            { EEAV_LPART_EMPTY, "empty" }, { EEAV_LPART_TOO_LONG, "long" }, { EEAV_LPART_NOT_ASCII, "ascii" }, { EEAV_LPART_SPECIAL, "special" },
            { EEAV_LPART_CTRL_CHAR, "control" }, { EEAV_LPART_MISPLACED_QUOTE, "quote" }, { EEAV_LPART_UNQUOTED, "quote" },
            { EEAV_LPART_TOO_MANY_DOTS, "dots" }, { EEAV_LPART_MISPLACED_DOT, "dot" }, { EEAV_LPART_UNQUOTED_FWS, "unquoted" },
            { EEAV_LPART_INVALID_FOLDING, "folding" }, { EEAV_LPART_INVALID_UTF8, "UTF-8" }, { EEAV_DOMAIN_EMPTY, "empty" },
            { EEAV_DOMAIN_LABEL_TOO_LONG, "long" }, { EEAV_DOMAIN_MISPLACED_HYPHEN, "hyphen" }, { EEAV_DOMAIN_MISPLACED_DELIMITER, "delimiter" },
            { EEAV_DOMAIN_INVALID_CHAR, "invalid" }, { EEAV_DOMAIN_TOO_LONG, "long" }, { EEAV_DOMAIN_NUMERIC, "numeric" },
            { EEAV_DOMAIN_NOT_FQDN, "FQDN" }, { EEAV_IPADDR_INVALID, "ip-addr" }, { EEAV_IPADDR_BRACKET_UNPAIR, "bracket" },
            { EEAV_TLD_INVALID, "invalid" }, { EEAV_TLD_NOT_ASSIGNED, "not assigned" }, { EEAV_TLD_COUNTRY_CODE, "country" },
            { EEAV_TLD_GENERIC, "generic" }, { EEAV_TLD_GENERIC_RESTRICTED, "restricted" }, { EEAV_TLD_INFRASTRUCTURE, "infrastructure" },
            { EEAV_TLD_SPONSORED, "sponsored" }, { EEAV_TLD_TEST, "test" }, { EEAV_TLD_SPECIAL, "special" }, { EEAV_TLD_RETIRED, "retired" } };
        for (unsigned k = 0; k < sizeof want / sizeof want[0]; k++) {
            const char *msg = cb_msg_of(want[k].code);
            VF_ASSERT(msg != NULL && msg[0] != 0, "C15: every error code has a non-empty message");
            VF_ASSERT(contains(msg, want[k].kw), "C15: the message of a code names the condition of that code");
            if (want[k].code >= EEAV_TLD_NOT_ASSIGNED)     /* one class per message */
                for (unsigned j = 0; j < sizeof want / sizeof want[0]; j++)
                    if (want[j].code >= EEAV_TLD_NOT_ASSIGNED && j != k && want[j].code != EEAV_TLD_GENERIC)
                        VF_ASSERT(!contains(msg, want[j].kw), "C15: a TLD-class message names its own class only");
        }
    }
    bool keep_defaults = nondet_bool();
    int rfc = nondet_int();
    bool tld_check = nondet_bool();
    int allow = nondet_int();
    if (!keep_defaults) {
        e.rfc = rfc;
        e.tld_check = tld_check;
        e.allow_tld = allow;
    } else {
        rfc = e.rfc; tld_check = e.tld_check; allow = e.allow_tld;
    }

    int s = eav_setup(&e);
    if (rfc < EAV_RFC_822 || rfc > EAV_RFC_6531) {
        VF_ASSERT(s == EEAV_INVALID_RFC, "C15: eav_setup returns EEAV_INVALID_RFC for every undefined mode");
        const char *m = eav_errstr(&e);
        VF_ASSERT(CB_SAME_MSG(m, cb_msg_of(EEAV_INVALID_RFC)), "C15: after a failed eav_setup eav_errstr reports the invalid-RFC condition");
        VF_ASSERT(m != NULL && m[0] != 0, "C15: the invalid-RFC message is not empty");
        VF_COVER(1, "invalid-rfc");
        eav_free(&e);
        VF_END();
        return;
    }
    VF_ASSERT(s == EEAV_NO_ERROR, "C15: eav_setup returns 0 for the four defined modes");
    VF_ASSERT(e.tld_check == tld_check && e.allow_tld == allow && e.rfc == rfc, "eav_setup leaves the public settings alone");

    unsigned len = nondet_uint();
    VF_ASSUME(len <= CB_ADDR_LEN);
    for (unsigned i = 0; i < len; i++) { cb_addr[0][i] = nondet_uchar(); VF_ASSUME(cb_addr[0][i] != 0); }
    cb_addr[0][len] = 0;

    int ret = eav_is_email(&e, (const char *) cb_addr[0], len);

    VF_ASSERT(cb_calls == 1, "C01: exactly one per-mode callback runs per validation");
    VF_ASSERT(cb_last_mode == rfc, "C01: the mode chosen before eav_setup is the mode whose rules are applied");
    VF_ASSERT(cb_last_email == (const char *) cb_addr[0] && cb_last_len == len, "C01: the callback receives the caller's address and length");
    VF_ASSERT(cb_last_tld == tld_check, "C08: the callback receives the caller's tld_check");
    VF_ASSERT(e.result == cb_last_result, "C16: the result record of this call is kept");

    int rc = e.result->rc;
    bool want;
    int want_err;
    if (rc == 0) { want = true; want_err = EEAV_NO_ERROR; }
    else if (rc < 0) { want = false; want_err = -rc; }
    else {
        want = (allow & cb_bit_of_class(rc)) != 0;
        want_err = want ? EEAV_NO_ERROR : cb_errcode_of_class(rc);
        VF_COVER(want, "class-allowed");
        VF_COVER(!want, "class-denied");
    }
    VF_ASSERT(ret == 0 || ret == 1, "eav_is_email returns 0 or 1");
    VF_ASSERT((ret == 1) == want, "C08: accepted iff rc == 0 or the bit of the TLD class is set in allow_tld");
    VF_ASSERT(e.errcode == want_err, "C15: the error code corresponds to the code returned by the validator");
    VF_ASSERT((ret == 1) == (e.errcode == EEAV_NO_ERROR), "C15: returns 1 iff the recorded error is 'no error'");

    const char *m = eav_errstr(&e);
    if (e.errcode == EEAV_IDN_ERROR) {
        VF_ASSERT(CB_IS_IDN_MESSAGE_FOR(m, e.result->idn_rc), "C15/C19: an IDN failure carries the IDN library's own message for its code");
        VF_ASSERT(cb_strerror_calls >= 1 && cb_strerror_arg == e.result->idn_rc, "C15/C19: ... for the IDN code of this result");
        VF_COVER(1, "idn-error");
    } else {
        VF_ASSERT(CB_SAME_MSG(m, cb_msg_of(e.errcode)), "C15: eav_errstr is the message of the recorded code");
        VF_ASSERT(m != NULL && m[0] != 0, "C15: the message is not empty");
    }
    VF_COVER(ret == 1 && rc == 0, "accepted");
    VF_COVER(ret == 0 && rc < 0, "rejected");

    eav_free(&e);
    VF_ASSERT(e.result == NULL, "C13: eav_free releases the result");
    VF_FORGET(cb_last_result);
#ifdef HAVE_IDNKIT
    VF_ASSERT(ik_live == 0 && !ik_bad_destroy && !cb_bad_ctx, "C18: the IDN context is released exactly once by eav_free and was live when used");
#endif
    VF_END();
}
