/* Layer D: the real bin/main.c + bin/main.h (+ bin/utf8_decode.c), stdio and the libeav API stubbed.
 *  VF_D == 1: main()/parse_file() on a symbolic file of VF_LINES lines of <= VF_LL bytes
 *             (LF / CRLF / missing final newline), sanitize_utf8 intercepted;
 *  VF_D == 2: the real sanitize_utf8 + static decoder on a symbolic text of <= VF_N bytes with the
 *             buffer shrunk by the LIBEAV_VERIF hook (LIBEAV_VERIF_TEXT_SIZE).            (C20) */
#include <stdio.h>
#include <stdlib.h>
#include <string.h>
#include <locale.h>
#include <errno.h>
#include <time.h>
#include <assert.h>
#include <stdarg.h>
#include <sys/types.h>
#include <eav.h>
#include "vf.h"
#include "ref_local.h"

#ifndef VF_D
#define VF_D 1
#endif
#ifndef VF_LINES
#define VF_LINES 3
#endif
#ifndef VF_LL
#define VF_LL 4
#endif
#define CAP (VF_LL + 3)           /* content + CR + LF + NUL */

/* ------------------------------------------------------------------ the symbolic file */
static unsigned char f_line[VF_LINES][CAP];   /* raw line as getline delivers it (with terminator) */
static unsigned f_rawlen[VF_LINES];
static unsigned f_nlines;
static unsigned f_next;
static int f_open, f_closed;

/* ------------------------------------------------------------------ recorded effects */
#define MAXOUT (2 * VF_LINES + 2)
/* stdout, one entry per fprintf call: the first four characters written and the last %s argument */
static struct { char head[5]; const char *last_arg; } outv[MAXOUT];
static unsigned nout;
static struct { unsigned char b[CAP]; size_t len; bool ret; } callv[VF_LINES + 1];
static unsigned ncall;
static int n_init, n_setup, n_free;
static const char k_errstr[] = "stub-error-message";
static const char k_sanitized[] = "stub-sanitized";
static const char *san_text; static size_t san_len; static unsigned n_san;
static bool bad_order, settings_touched;

/* ------------------------------------------------------------------ libeav API stubs */
void eav_init(eav_t *e) { n_init++; e->rfc = EAV_RFC_6531; e->tld_check = true; e->allow_tld = 0x2f8; e->result = NULL; }
int eav_setup(eav_t *e)
{
    n_setup++;
    if (n_init != 1 || e->rfc != EAV_RFC_6531 || e->tld_check != true || e->allow_tld != 0x2f8) settings_touched = true;
    return 0;
}
int eav_is_email(eav_t *e, const char *email, size_t length)
{
    if (n_setup != 1 || n_free != 0) bad_order = true;
    if (e->rfc != EAV_RFC_6531 || e->tld_check != true || e->allow_tld != 0x2f8) settings_touched = true;
    VF_ASSERT(ncall < VF_LINES, "C20: at most one library call per line");
    VF_ASSERT(length < CAP, "C20: the length handed to the library is the length of the trimmed line");
    VF_ASSERT(strlen(email) == length, "C20: length argument equals strlen of the trimmed line");
    callv[ncall].len = length;
    for (unsigned i = 0; i < CAP; i++) callv[ncall].b[i] = (i < length) ? (unsigned char) email[i] : 0;
    bool r = nondet_bool();
    callv[ncall].ret = r;
    ncall++;
    return r ? 1 : 0;
}
const char *eav_errstr(eav_t *e) { (void) e; return k_errstr; }
void eav_free(eav_t *e) { (void) e; n_free++; }

/* ------------------------------------------------------------------ stdio stubs */
static FILE *vf_fopen(const char *path, const char *mode) { (void) path; (void) mode; f_open++; f_next = 0; return (FILE *) &f_open; }
static int vf_fclose(FILE *fh) { (void) fh; f_closed++; return 0; }
static char *vf_setlocale(int c, const char *l) { (void) c; (void) l; return NULL; }
static ssize_t vf_getline(char **lineptr, size_t *n, FILE *fh)
{
    /* glibc semantics: a NULL pointer OR A ZERO SIZE means "no buffer yet" (a fresh one is allocated, the old
     * pointer is NOT freed); a buffer announced as too small is reallocated (old one released) */
    (void) fh;
    if (f_next >= f_nlines) return -1;
    unsigned len = f_rawlen[f_next];
    char *p;
    if (*lineptr == NULL || *n == 0) {
        p = malloc(CAP);
        VF_ASSUME(p != NULL);
    } else if (*n < (size_t) len + 1) {
        free(*lineptr);
        p = malloc(CAP);
        VF_ASSUME(p != NULL);
    } else
        p = *lineptr;
    for (unsigned i = 0; i < CAP; i++) p[i] = (i < len) ? (char) f_line[f_next][i] : 0;
    *lineptr = p;
    *n = CAP;
    f_next++;
    return (ssize_t) len;
}
static int vf_fprintf(FILE *fh, const char *fmt, ...)
{
    /* format-agnostic: "PASS: %s\n" and "%s: %s\n" with "PASS" as first argument record the same thing */
    va_list ap;
    if (fh != stdout) return 0;           /* usage / summary lines go to stderr */
    VF_ASSERT(nout < MAXOUT, "C20: no more than two output lines per input line");
    unsigned w = 0;
    outv[nout].last_arg = NULL;
    va_start(ap, fmt);
    for (unsigned i = 0; i < 12 && fmt[i] != 0; i++) {
        if (fmt[i] == '%' && fmt[i + 1] == 's') {
            const char *a = va_arg(ap, const char *);
            outv[nout].last_arg = a;
            for (unsigned k = 0; k < 4 && a != NULL && a[k] != 0; k++)
                if (w < 4) outv[nout].head[w++] = a[k];
            i++;
        } else if (w < 4)
            outv[nout].head[w++] = fmt[i];
    }
    va_end(ap);
    outv[nout].head[w] = 0;
    nout++;
    return 0;
}

static int head_is(unsigned o, const char *p)
{
    return outv[o].head[0] == p[0] && outv[o].head[1] == p[1] && outv[o].head[2] == p[2] && outv[o].head[3] == p[3];
}

#define fopen vf_fopen
#define fclose vf_fclose
#define getline vf_getline
#define fprintf vf_fprintf
#define setlocale vf_setlocale
#if !defined(VF_NATIVE)
/* sprintf is only used as sprintf(buf, "0x%02x", c) */
static int vf_sprintf(char *buf, const char *fmt, int c)
{
    static const char hx[] = "0123456789abcdef";
    VF_ASSERT(strcmp(fmt, "0x%02x") == 0 && c >= 0 && c <= 0xff, "harness: sprintf model covers the one format used");
    buf[0] = '0'; buf[1] = 'x'; buf[2] = hx[(c >> 4) & 15]; buf[3] = hx[c & 15]; buf[4] = 0;
    return 4;
}
#define sprintf vf_sprintf
#endif

#if VF_D == 1
#define sanitize_utf8 real_sanitize_utf8
#include "main.h"
#undef sanitize_utf8
static const char *sanitize_utf8(const char *text, size_t length)
{
    n_san++; san_text = text; san_len = length;
    return k_sanitized;
}
#endif
#define main eav_cli_main
#include "main.c"
#undef main

#if VF_D == 1
void harness(void)
{
    VF_ASSUME(stdout != stderr);          /* two distinct streams (extern objects are unconstrained for the solver) */
    f_nlines = nondet_uint();
    VF_ASSUME(f_nlines <= VF_LINES);
    for (unsigned l = 0; l < VF_LINES; l++) {
        unsigned n = nondet_uint();
        VF_ASSUME(n <= VF_LL);
        unsigned term = nondet_uint();    /* 0: LF, 1: CRLF, 2: none (last line only) */
        VF_ASSUME(term <= 2 && (term != 2 || l + 1 == f_nlines));
        VF_ASSUME(term != 2 || n >= 1);   /* getline never returns an empty record */
        unsigned k = 0;
        for (unsigned i = 0; i < VF_LL; i++) {
            unsigned char c = nondet_uchar();
            VF_ASSUME(c != 0 && c != '\n');
            if (i < n) f_line[l][k++] = c;
        }
        if (term == 1) f_line[l][k++] = '\r';
        if (term <= 1) f_line[l][k++] = '\n';
        f_rawlen[l] = k;
    }
    char a0[] = "eav", a1[] = "file";
    char *argv[] = { a0, a1, NULL };
    int rc = eav_cli_main(2, argv);

    VF_ASSERT(rc == 0, "C20: the tool terminates normally");
    VF_ASSERT(n_init == 1 && n_setup == 1 && n_free == 1 && !bad_order, "C20: init, setup, validations, free - in this order");
    VF_ASSERT(!settings_touched, "C20: the library runs under untouched default settings");
    VF_ASSERT(f_open == 1 && f_closed == 1, "C20: the file is opened and closed once");

    /* reference: what must have been validated and printed, line by line */
    unsigned want_calls = 0, o = 0;
    for (unsigned l = 0; l < VF_LINES; l++) {
        if (l >= f_nlines) break;
        unsigned char t[CAP];
        unsigned n = f_rawlen[l];
        for (unsigned i = 0; i < CAP; i++) t[i] = (i < n) ? f_line[l][i] : 0;
        if (n >= 2 && t[n - 2] == '\r' && t[n - 1] == '\n') { n -= 2; }
        else if (n >= 1 && t[n - 1] == '\n') { n -= 1; }
        if (n >= 1 && t[0] == '#') continue;                      /* comment line: no verdict */
        unsigned s = (n >= 1 && t[0] == ' ') ? 1 : 0;             /* one leading space */
        if (n > s && (t[n - 1] == ' ' || t[n - 1] == '\t')) n--;  /* one trailing blank */
        VF_ASSERT(want_calls < ncall, "C20: one library call per non-comment line");
        VF_ASSERT(callv[want_calls].len == n - s, "C20: the library is given the trimmed line (length)");
        for (unsigned i = 0; i < CAP; i++)
            if (i < n - s) VF_ASSERT(callv[want_calls].b[i] == t[s + i], "C20: the library is given the trimmed line (bytes)");
        VF_ASSERT(o < nout, "C20: exactly one verdict per non-comment line");
        if (callv[want_calls].ret) {
            VF_ASSERT(head_is(o, "PASS") && outv[o].last_arg == k_sanitized, "C20: PASS iff the library accepted, followed by the echoed line");
            o += 1;
        } else {
            VF_ASSERT(head_is(o, "FAIL") && outv[o].last_arg == k_sanitized, "C20: FAIL iff the library rejected, followed by the echoed line");
            VF_ASSERT(o + 1 < nout && !head_is(o + 1, "PASS") && !head_is(o + 1, "FAIL") && outv[o + 1].last_arg == k_errstr,
                      "C20: a FAIL is followed by the library's error message");
            o += 2;
        }
        want_calls++;
        VF_COVER(n - s == 0, "empty-after-trim");
        VF_COVER(s == 1 && n >= 3, "leading-space-trimmed");
    }
    VF_ASSERT(want_calls == ncall && o == nout, "C20: no verdict and no library call beyond the non-comment lines");
    VF_ASSERT(n_san == ncall, "C20: each verdict echoes its line once");
    VF_COVER(f_nlines == VF_LINES && ncall == VF_LINES, "all-lines-validated");
    VF_COVER(f_nlines >= 2 && ncall < f_nlines, "comment-skipped");
    VF_END();
}
#else
#ifndef VF_N
#define VF_N 6
#endif
void harness(void)
{
    unsigned char text[VF_N + 1];
    unsigned n = nondet_uint();
    VF_ASSUME(n <= VF_N);
    for (unsigned i = 0; i < VF_N; i++) {
        unsigned char c = nondet_uchar();
        text[i] = (i < n) ? (c | (c == 0)) : 0;
    }
    text[VF_N] = 0;
#ifdef VF_TWICE
    /* the echo of a line must not depend on the line printed before it (static buffer) */
    {
        unsigned char prev[VF_N + 1];
        unsigned pn = nondet_uint();
        VF_ASSUME(pn <= VF_N);
        for (unsigned i = 0; i < VF_N; i++) { unsigned char c = nondet_uchar(); prev[i] = (i < pn) ? (c | (c == 0)) : 0; }
        prev[VF_N] = 0;
        (void) sanitize_utf8((const char *) prev, pn);
    }
#endif
    const char *out = sanitize_utf8((const char *) text, n);
    VF_ASSERT(out != NULL, "C20: sanitize_utf8 returns a string");
    size_t ol = 0;
    while (ol < TEXT_SIZE && out[ol] != 0) ol++;
    VF_ASSERT(ol < TEXT_SIZE, "C20: the echoed text is NUL-terminated inside its buffer");
    bool clean = ref_utf8_wellformed(text, n);
    for (unsigned i = 0; i < VF_N; i++)
        if (i < n && (text[i] < 0x20 || text[i] == 0x7f)) clean = false;
    if (clean && n < TEXT_SIZE) {
        VF_ASSERT(ol == n, "C20: a well-formed control-free line is echoed unchanged (length)");
        for (unsigned i = 0; i < VF_N; i++)
            if (i < n) VF_ASSERT((unsigned char) out[i] == text[i], "C20: a well-formed control-free line is echoed unchanged (bytes)");
        VF_COVER(n >= 3 && text[0] >= 0xE0, "echo-multibyte");
    }
    VF_COVER(!ref_utf8_wellformed(text, n), "ill-formed-input");
    VF_COVER(n >= TEXT_SIZE, "longer-than-buffer");
    VF_COVER(ol == TEXT_SIZE - 1, "buffer-full");
    VF_END();
}
#endif
