/* Layer B: the real is_{822,5321,5322,6531}_email (+ private_email.h macros) linked against
 * recording stubs of the leaf validators.  Symbolic address of length <= VF_N, symbolic
 * tld_check.  Asserts the composition the properties describe (C01, C05-B, C08-B, C16, C15-B). */
#include <stdlib.h>
#include <string.h>
#include <eav.h>
#include <eav/auto_tld.h>
#include "vf.h"
#include "leafstubs.h"

#ifndef VF_N
#define VF_N 24
#endif
#ifndef VF_MODE
#define VF_MODE 0
#endif
#if VF_MODE == 0
#define FUNC is_822_email
#define F_LOCAL F_L822
#elif VF_MODE == 1
#define FUNC is_5321_email
#define F_LOCAL F_L5321
#elif VF_MODE == 2
#define FUNC is_5322_email
#define F_LOCAL F_L5322
#else
#define FUNC is_6531_email
#define F_LOCAL F_L6531
#endif

static unsigned char email_buf[VF_N + 1];
static unsigned char *email_u = email_buf;
#define email ((char *) email_u)

static int flags(const eav_result_t *r) { return (r->is_ipv4 ? 1 : 0) + (r->is_ipv6 ? 1 : 0) + (r->is_domain ? 1 : 0); }

static int other_locals_called(void)
{
    int n = 0;
    for (int f = F_L822; f <= F_L6531; f++)
        if (f != F_LOCAL) n += ls_count[f];
    return n;
}

static int domain_side_calls(void)
{
    return ls_count[F_ADOM] + ls_count[F_UDOM] + ls_count[F_SPECIAL] + ls_count[F_TLD] +
           ls_count[F_IPADDR] + ls_count[F_IPV4] + ls_count[F_IPV6];
}

static int ci_eq(char a, char b)
{
    if (a >= 'A' && a <= 'Z') a += 32;
    if (b >= 'A' && b <= 'Z') b += 32;
    return a == b;
}

void harness(void)
{
    unsigned len = nondet_uint();
    VF_ASSUME(len <= VF_N);
#ifdef VF_MIN_LEN
    VF_ASSUME(len >= VF_MIN_LEN);
#endif
#ifdef VF_EXACT_N
    len = VF_N;                /* one query per length */
#endif
#ifdef VF_TAIL_ALIGN     /* terminator = last byte of the object: a read past it is out of bounds */
    email_u = email_buf + (VF_N - len);
#endif
#ifdef VF_FILL_FROM
    /* long family: positions [VF_FILL_FROM, VF_FILL_TO) all hold one symbolic non-structural byte */
    unsigned char fill = nondet_uchar();
    VF_ASSUME(fill != 0 && fill != '@' && fill != '[' && fill != ']' && fill != '.' && fill != ':');
#endif
    for (unsigned i = 0; i < VF_N; i++) {
#ifdef VF_FILL_FROM
        if (i >= VF_FILL_FROM && i < VF_FILL_TO) { if (i < len) email_u[i] = fill; continue; }
#endif
        unsigned char ch = nondet_uchar();
        if (i < len) { VF_ASSUME(ch != 0); email_u[i] = ch; }
    }
    email_u[len] = 0;
    bool tld_check = nondet_bool();
    ls_base = email;
    ls_buflen = len;

#if VF_MODE == 3 && defined(HAVE_IDNKIT)
    static struct vf_idn_resconf the_ctx = { 1, 1 };
    eav_result_t *r = FUNC(&the_ctx, IDN_ENCODE_REGIST, email, len, tld_check);
    VF_ASSERT(ls_count[F_UDOM] == 0 || (ls_udom_ctx == &the_ctx && ls_udom_actions == IDN_ENCODE_REGIST),
              "C18: the caller's IDN context and actions are handed to the domain validator");
#else
    eav_result_t *r = FUNC(email, len, tld_check);
#endif

    VF_ASSERT(r != NULL, "a result record is always returned");
    VF_ASSERT(!ls_bad_range, "C06: leaf validators are only given ranges inside the address");
    VF_ASSERT(flags(r) <= 1, "C16: at most one of is_ipv4/is_ipv6/is_domain is set");
    VF_ASSERT(other_locals_called() == 0, "C01: no other mode's local-part validator is consulted");

    /* position of the last '@' */
    long at = -1;
    for (unsigned i = 0; i < len; i++)
        if (email[i] == '@') at = i;

    int rc = r->rc;
    if (len == 0) {
        VF_ASSERT(rc == -EEAV_EMAIL_EMPTY, "C01: empty string rejected as EMAIL_EMPTY");
        VF_ASSERT(ls_n == 0 && flags(r) == 0, "C01: nothing consulted, no flag for the empty string");
    } else if (at < 0 || at == (long) len - 1) {
        VF_ASSERT(rc == -EEAV_DOMAIN_EMPTY, "C01: missing '@' or empty domain rejected as DOMAIN_EMPTY");
        VF_ASSERT(ls_n == 0 && flags(r) == 0, "C01: nothing consulted, no flag when the domain is missing");
    } else if (at > 64) {
        VF_ASSERT(rc == -EEAV_LPART_TOO_LONG, "C01: local part longer than 64 octets rejected as LPART_TOO_LONG");
        VF_ASSERT(ls_n == 0 && flags(r) == 0, "C01: nothing consulted, no flag for an over-long local part");
        VF_COVER(1, "lpart-too-long");
    } else {
        VF_ASSERT(ls_only(F_LOCAL, 0, at),
                  "C01: this mode's local-part validator is applied to exactly [address, last '@')");
        int lrc = ls_value(F_LOCAL, 0, at)->ret;
        if (lrc != 0) {
            VF_ASSERT(rc < 0, "C01: an invalid local part is rejected");
            VF_ASSERT(rc == lrc || (ls_count[F_ADOM] && ls_find(F_ADOM, at + 1, len) && rc == ls_find(F_ADOM, at + 1, len)->ret) ||
                      (ls_count[F_UDOM] && ls_find(F_UDOM, at + 1, len) && rc == ls_find(F_UDOM, at + 1, len)->ret),
                      "C01/C15: the error code is the code returned by a failing per-part validator, unchanged");
            VF_ASSERT(flags(r) == 0, "C16: invalid local part: no flag");
            VF_COVER(at == 64, "lpart-64-rejected-by-leaf");
        } else if (email[at + 1] != '[') {
            /* ---------------------------------------------------- host name */
            VF_ASSERT(ls_count[F_IPADDR] + ls_count[F_IPV4] + ls_count[F_IPV6] == 0,
                      "C05: no address-literal validation for a domain not starting with '['");
#if VF_MODE != 3
            VF_ASSERT(ls_only(F_ADOM, at + 1, len) && ls_count[F_UDOM] == 0,
                      "C01: the host-name validator is applied to exactly (last '@', end)");
            int drc = ls_value(F_ADOM, at + 1, len)->ret;
            if (drc != 0) {
                VF_ASSERT(rc == drc, "C01/C15: a domain error code is returned unchanged");
                VF_ASSERT(flags(r) == 0, "C16: invalid domain: no flag");
            } else if (!tld_check) {
                VF_ASSERT(rc == 0, "C01/C08: valid halves, TLD checking off: accepted with rc 0");
                VF_ASSERT(r->is_domain && flags(r) == 1, "C16: accepted host name reports is_domain only");
                VF_COVER(at == 64, "accepted-lpart-64");
                VF_COVER(1, "accepted-hostname");
            } else {
                VF_ASSERT(ls_only(F_SPECIAL, at + 1, len), "C09: the reserved-domain check is applied to the whole domain");
                long dot = -1;
                for (long i = at + 1; i < (long) len; i++)
                    if (email[i] == '.') dot = i;
                if (ls_value(F_SPECIAL, at + 1, len)->ret != 0) {
                    VF_ASSERT(rc == TLD_TYPE_SPECIAL, "C09: a reserved domain is class special whatever the TLD table says");
                    VF_COVER(1, "special");
                } else if (dot < 0) {
                    VF_ASSERT(rc == -EEAV_DOMAIN_NOT_FQDN, "C07: single-label non-reserved domain is not FQDN");
                    VF_COVER(1, "not-fqdn");
                } else {
                    VF_ASSERT(ls_only(F_TLD, dot + 1, len), "C07: the TLD lookup is made on exactly the last label (after the last dot)");
                    VF_ASSERT(rc == ls_value(F_TLD, dot + 1, len)->ret, "C07: the TLD class / error is returned unchanged");
                    VF_COVER(rc > 0, "tld-class");
                }
                VF_ASSERT(r->is_domain && flags(r) == 1, "C16: syntactically valid host name reports is_domain only");
            }
#else
            VF_ASSERT(ls_only(F_UDOM, at + 1, len) && ls_count[F_ADOM] == 0,
                      "C01: the UTF-8 domain validator is applied to exactly (last '@', end)");
            VF_ASSERT(ls_udom_tld_check == tld_check, "C08: the caller's tld_check is handed to the domain validator");
            struct ls_call *u = ls_value(F_UDOM, at + 1, len);
            VF_ASSERT(rc == u->ret, "C01/C15: the domain verdict is returned unchanged");
            VF_ASSERT(r->idn_rc == u->idn, "C19: the IDN library code is stored in the result");
            VF_ASSERT(r->is_domain == (rc >= 0) && flags(r) == (rc >= 0 ? 1 : 0),
                      "C16: is_domain iff the domain was valid; no other flag");
            VF_COVER(rc == 0 && !tld_check, "accepted-hostname");
            VF_COVER(rc == 0 && at == 64, "accepted-lpart-64");
            VF_COVER(rc > 0, "tld-class");
            VF_COVER(rc == -EEAV_IDN_ERROR, "idn-error");
#endif
        } else {
            /* ---------------------------------------------------- address literal */
            long brs = at + 1;
            long dlen = (long) len - brs;
            long bre = -1;
            for (long i = brs; i < (long) len; i++)
                if (email[i] == ']') bre = i;
            VF_ASSERT(ls_count[F_ADOM] + ls_count[F_UDOM] + ls_count[F_SPECIAL] + ls_count[F_TLD] == 0,
                      "C08: address literals are not subject to host-name, reserved or TLD checks");
            VF_ASSERT(rc <= 0, "C08: the literal path never yields a TLD class");
            VF_ASSERT(!r->is_domain, "C16: a literal is never reported as a host name");
            VF_ASSERT(rc == 0 || rc == -EEAV_IPADDR_INVALID || rc == -EEAV_IPADDR_BRACKET_UNPAIR,
                      "C15: literal errors are IPADDR_INVALID or BRACKET_UNPAIR");
            VF_ASSERT(rc != -EEAV_IPADDR_BRACKET_UNPAIR || bre < 0, "C15: 'unpaired bracket' only if there is no ']'");
            VF_ASSERT(rc != 0 || flags(r) == 1, "C16: accepted literal reports exactly one family");
            VF_ASSERT(rc == 0 || flags(r) == 0, "C16: rejected literal reports no flag");
            int ipcalls = ls_count[F_IPADDR] + ls_count[F_IPV4] + ls_count[F_IPV6];
            if (rc == 0) {
                VF_ASSERT(bre == (long) len - 1, "C05: accepted literal: ']' is the last byte, nothing follows");
                VF_ASSERT(ipcalls >= 1, "C05: accepted literal was validated");
                VF_COVER(1, "accepted-literal");
            }
            if (bre == (long) len - 1 && dlen >= 9) {
                bool exact_tag = memcmp(email + brs + 1, "IPv6:", 5) == 0;
                bool ci_tag = ci_eq(email[brs + 1], 'i') && ci_eq(email[brs + 2], 'p') && ci_eq(email[brs + 3], 'v') &&
                              email[brs + 4] == '6' && email[brs + 5] == ':';
                bool colon = false;
                for (long i = brs + 1; i < bre; i++)
                    if (email[i] == ':') colon = true;
                if (exact_tag) {
                    VF_ASSERT(ls_only(F_IPV6, brs + 6, bre) && ls_count[F_IPADDR] + ls_count[F_IPV4] == 0,
                              "C05: 'IPv6:'-tagged literal validated as IPv6 on exactly the text between tag and ']'");
                    VF_ASSERT((rc == 0) == (ls_value(F_IPV6, brs + 6, bre)->ret != 0),
                              "C05: tagged literal accepted iff the IPv6 validator accepts");
                    VF_ASSERT(rc != 0 || r->is_ipv6, "C16: tagged literal reports is_ipv6");
                    VF_COVER(rc == 0, "accepted-tagged-v6");
                } else if (!ci_tag) {
                    VF_ASSERT(ls_only(F_IPADDR, brs + 1, bre) && ls_count[F_IPV6] + ls_count[F_IPV4] == 0,
                              "C05: untagged literal validated on exactly the text between the brackets");
                    VF_ASSERT((rc == 0) == (ls_value(F_IPADDR, brs + 1, bre)->ret != 0),
                              "C05: untagged literal accepted iff the address validator accepts");
                    VF_ASSERT(rc != 0 || (r->is_ipv6 == colon && r->is_ipv4 == !colon),
                              "C05/C16: family flag follows the address actually present (':' in the content)");
                    VF_COVER(rc == 0 && !colon, "accepted-v4");
                    VF_COVER(rc == 0 && colon, "accepted-untagged-v6");
                }
            }
        }
    }
    /* C16 result-code semantics */
    VF_ASSERT(rc <= 0 || (tld_check && rc >= TLD_TYPE_NOT_ASSIGNED && rc <= TLD_TYPE_RETIRED),
              "C16: a positive result code is a TLD class and only with TLD checking on");
#ifdef EAV_EXTRA
    if (r->lpart != NULL || r->domain != NULL) {
        VF_ASSERT(r->lpart != NULL && r->domain != NULL, "C16: lpart and domain are set together");
        VF_ASSERT(flags(r) == 1, "C16: lpart/domain only for a syntactically valid address");
        VF_ASSERT(strlen(r->lpart) == (size_t) at && memcmp(r->lpart, email, at) == 0, "C16: lpart reproduces the local part");
        if (r->is_domain)
            VF_ASSERT(strlen(r->domain) == len - at - 1 && memcmp(r->domain, email + at + 1, len - at - 1) == 0,
                      "C16: domain reproduces the host name");
        else
            VF_ASSERT(strlen(r->domain) == len - at - 3 && memcmp(r->domain, email + at + 2, len - at - 3) == 0,
                      "C16: domain reproduces the literal without brackets");
        VF_COVER(r->is_ipv6, "extra-literal");
        VF_COVER(r->is_domain, "extra-domain");
    }
    VF_ASSERT(flags(r) == 0 || (r->lpart != NULL && r->domain != NULL),
              "C16: a syntactically valid address carries lpart and domain");
    if (flags(r) == 0)
        VF_ASSERT(r->lpart == NULL && r->domain == NULL, "C16: lpart/domain are NULL when the address is syntactically invalid");
#endif
    eav_result_free(r);
    VF_END();
}
