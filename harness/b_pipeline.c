/* Product program (C12 clause 3, C10 ASCII clause): the four real is_*_email functions and the real
 * is_utf8_domain on ONE pure-ASCII address.  Leaf validators are uninterpreted functions of the
 * CONTENT of their range, ASCII-case-insensitive (so the converter output and the original domain
 * get the same answers); the local-part validators are one mode-independent uninterpreted function
 * (justified for quote-free ASCII local parts by the C12 cross query).  The IDN converter obeys
 * K1+K2: it fails with some code, or returns the input with arbitrary ASCII case changes. */
#include <stdlib.h>
#include <string.h>
#include <eav.h>
#include <eav/auto_tld.h>
#include "vf.h"

#ifndef VF_N
#define VF_N 12
#endif

static unsigned char addr[VF_N + 1];
static unsigned alen;

static unsigned char lc(unsigned char c) { return (c >= 'A' && c <= 'Z') ? c + 32 : c; }

/* ---- content-memoised uninterpreted functions */
enum { G_LOCAL, G_ADOM, G_SPECIAL, G_TLD, G_IPADDR, G_IPV6, G_MAX };
#define PM_MAX 10
struct pm { int fn; unsigned len; unsigned char b[VF_N + 1]; int ret; };
static struct pm pm_tab[PM_MAX];
static int pm_n;

static int pm_draw(int fn)
{
    int v = nondet_int();
    switch (fn) {
    case G_LOCAL:   VF_ASSUME(v == 0 || (v <= -EEAV_LPART_EMPTY && v >= -EEAV_LPART_INVALID_UTF8 && v != -EEAV_LPART_NOT_ASCII && v != -EEAV_LPART_INVALID_UTF8)); break;
    case G_ADOM:    VF_ASSUME(v == 0 || (v <= -EEAV_DOMAIN_EMPTY && v >= -EEAV_DOMAIN_NUMERIC)); break;
    case G_TLD:     VF_ASSUME((v >= TLD_TYPE_NOT_ASSIGNED && v <= TLD_TYPE_RETIRED) || v == -EEAV_TLD_INVALID); break;
    default:        VF_ASSUME(v == 0 || v == 1);
    }
    return v;
}

static int pm_call(int fn, const char *s, const char *e)
{
    unsigned len = (unsigned) (e - s);
    VF_ASSERT(len <= VF_N, "harness: range fits");
    for (int i = 0; i < pm_n; i++) {
        if (pm_tab[i].fn != fn || pm_tab[i].len != len) continue;
        int eq = 1;
        for (unsigned j = 0; j < VF_N; j++)
            if (j < len && pm_tab[i].b[j] != lc((unsigned char) s[j])) eq = 0;
        if (eq) return pm_tab[i].ret;
    }
    VF_ASSERT(pm_n < PM_MAX, "harness: memo table large enough");
    struct pm *p = &pm_tab[pm_n++];
    p->fn = fn; p->len = len;
    for (unsigned j = 0; j < VF_N; j++) p->b[j] = (j < len) ? lc((unsigned char) s[j]) : 0;
    p->ret = pm_draw(fn);
    return p->ret;
}

int is_822_local(const char *s, const char *e)  { return pm_call(G_LOCAL, s, e); }
int is_5321_local(const char *s, const char *e) { return pm_call(G_LOCAL, s, e); }
int is_5322_local(const char *s, const char *e) { return pm_call(G_LOCAL, s, e); }
int is_6531_local(const char *s, const char *e) { return pm_call(G_LOCAL, s, e); }
int is_ascii_domain(const char *s, const char *e)   { return pm_call(G_ADOM, s, e); }
int is_special_domain(const char *s, const char *e) { return pm_call(G_SPECIAL, s, e); }
int is_tld(const char *s, const char *e)            { return pm_call(G_TLD, s, e); }
int is_ipaddr(const char *s, const char *e)         { return pm_call(G_IPADDR, s, e); }
int is_ipv6(const char *s, const char *e)           { return pm_call(G_IPV6, s, e); }
int is_ipv4(const char *s, const char *e)           { VF_ASSERT(0, "is_ipv4 is not called directly by the email functions"); return 0; }

/* ---- converter: K1 + K2 */
static int conv_calls, conv_rc;
int idn2_to_ascii_8z(const char *input, char **output, int flags)
{
    (void) flags;
    conv_calls++;
    conv_rc = nondet_int();
    if (conv_rc != 0) return conv_rc;
    size_t n = strlen(input);
    VF_ASSERT(n <= VF_N, "harness: domain fits");
    unsigned char *o = malloc(VF_N + 1);
    VF_ASSUME(o != NULL);
    for (unsigned i = 0; i < VF_N; i++) {
        unsigned char c = (i < n) ? (unsigned char) input[i] : 0;
        bool flip = nondet_bool();
        if (flip && c >= 'A' && c <= 'Z') c += 32;
        else if (flip && c >= 'a' && c <= 'z') c -= 32;
        o[i] = c;
    }
    o[VF_N] = 0;
    *output = (char *) o;
    return 0;
}

void idn2_free(void *p) { free(p); }

static int fl(const eav_result_t *r) { return (r->is_ipv4 ? 1 : 0) | (r->is_ipv6 ? 2 : 0) | (r->is_domain ? 4 : 0); }

void harness(void)
{
    alen = nondet_uint();
    VF_ASSUME(alen <= VF_N);
#ifdef VF_EXACT_N
    alen = VF_N;               /* one query per length */
#endif
    for (unsigned i = 0; i < VF_N; i++) {
        unsigned char c = nondet_uchar();
        VF_ASSUME(c < 0x80);                         /* pure-ASCII address */
        addr[i] = (i < alen) ? (c | (c == 0)) : 0;
    }
    addr[VF_N] = 0;
    bool tld = nondet_bool();

    eav_result_t *a = is_822_email((const char *) addr, alen, tld);
    eav_result_t *b = is_5321_email((const char *) addr, alen, tld);
    eav_result_t *c = is_5322_email((const char *) addr, alen, tld);
    eav_result_t *u = is_6531_email((const char *) addr, alen, tld);

    VF_ASSERT(a->rc == b->rc && b->rc == c->rc, "C12: the three ASCII modes report the same verdict / TLD class for a fixed address");
    VF_ASSERT(fl(a) == fl(b) && fl(b) == fl(c), "C12: the three ASCII modes report the same result flags");
    if (conv_calls == 0) {
        VF_ASSERT(u->rc == a->rc, "C12: mode 6531 gives the same decision and code when no IDN conversion is involved");
        VF_ASSERT(fl(u) == fl(a), "C12: ... and the same flags (literals and early rejections)");
    } else {
        VF_ASSERT(conv_calls == 1, "one conversion per validation");
        if (conv_rc != 0) {
            VF_ASSERT(u->rc == -EEAV_IDN_ERROR, "C10/C12: mode 6531 differs from the ASCII modes only by reporting an IDN-library error");
            VF_COVER(a->rc == 0, "idn-rejects-what-ascii-accepts");
        } else {
            VF_ASSERT(u->rc == a->rc, "C10: for all-ASCII domains mode 6531 decides as the ASCII modes do, with the same class");
            VF_COVER(u->rc > 0, "same-class");
            VF_COVER(u->rc == 0, "both-accept");
        }
    }
    eav_result_free(a); eav_result_free(b); eav_result_free(c); eav_result_free(u);
    VF_END();
}
