/* Product programs over the four real local-part scanners on one symbolic string (C03 corollaries, C12). */
#include <eav.h>
#include "vf.h"
#include "ref_local.h"

#ifndef VF_N
#define VF_N 8
#endif
#ifndef VF_CTX
#define VF_CTX 1
#endif

void harness(void)
{
    unsigned char s[VF_N + VF_CTX + 1];
    unsigned n = nondet_uint();
    unsigned c = nondet_uint();
    VF_ASSUME(n <= VF_N);
    VF_ASSUME(c <= VF_CTX);
#ifdef VF_EXACT_N
    n = VF_N;                  /* one query per length */
#endif
#if VF_CROSS == 4
    /* a . X . b  with X one well-formed non-ASCII character (all scalar values above U+007F) */
    unsigned l = nondet_uint();
    VF_ASSUME(l >= 2 && l <= 4);
    n = l + 4;
    s[0] = 'a'; s[1] = '.';
    for (unsigned i = 0; i < 4; i++) { unsigned char b = nondet_uchar(); if (i < l) s[2 + i] = b; }
    VF_ASSUME(ref_utf8_len(s + 2, 0, l) == l);
    s[2 + l] = '.'; s[3 + l] = 'b';
    for (unsigned i = n; i < n + c; i++) { s[i] = nondet_uchar(); VF_ASSUME(s[i] != 0); }
    s[n + c] = 0;
    VF_ASSERT(is_6531_local((const char *) s, (const char *) s + n) == 0, "C03: 'a.X.b' is accepted for every non-ASCII character X");
    VF_COVER(l == 4, "x-four-byte");
    VF_COVER(l == 2, "x-two-byte");
#else
    for (unsigned i = 0; i < n + c; i++) {
        s[i] = nondet_uchar();
        VF_ASSUME(s[i] != 0);
        if (i < n) {
            VF_ASSUME(s[i] < 0x80);
#if VF_CROSS == 2
            VF_ASSUME(s[i] != '"' && s[i] != '\\');
#endif
        }
    }
    s[n + c] = 0;
    const char *b = (const char *) s, *e = (const char *) s + n;
#if VF_CROSS == 1
    int r5321 = is_5321_local(b, e), r6531 = is_6531_local(b, e);
    VF_ASSERT(r5321 == r6531, "C03: on pure-ASCII local parts modes 6531 and 5321 decide identically (same code)");
    VF_COVER(r5321 == 0 && n >= 3 && s[0] == '"', "both-accept-quoted");
    VF_COVER(r5321 != 0 && n >= 2, "both-reject");
#elif VF_CROSS == 2
    int r822 = is_822_local(b, e), r5321 = is_5321_local(b, e), r5322 = is_5322_local(b, e), r6531 = is_6531_local(b, e);
    VF_ASSERT(r822 == r5321 && r5321 == r5322 && r5322 == r6531,
              "C12: without DQUOTE/backslash/non-ASCII all four modes give the same decision and error code");
    VF_COVER(r822 == 0 && n >= 3, "all-accept");
    VF_COVER(r822 != 0 && n >= 2, "all-reject");
#elif VF_CROSS == 3
    int r5321 = is_5321_local(b, e), r822 = is_822_local(b, e);
    VF_ASSERT(r5321 != 0 || r822 == 0, "C12: every local part accepted in mode 5321 is accepted in mode 822");
    VF_COVER(r5321 == 0 && n >= 3 && s[0] == '"', "accept-quoted");
    VF_COVER(r5321 != 0 && r822 == 0, "822-only");
#endif
#endif
    VF_END();
}
