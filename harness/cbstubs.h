/* Layer C: the four per-mode callbacks as uninterpreted functions of
 * (mode, tld_check, address-id), each call returning a fresh heap result record.
 * Also the IDN library message function (records its argument). */
#ifndef CBSTUBS_H
#define CBSTUBS_H
#include <stdlib.h>
#include <eav.h>
#include <eav/auto_tld.h>
#include "vf.h"
#include "idnkit_res.h"
#ifdef HAVE_LIBIDN
#include <idna.h>
#endif

#ifndef CB_ADDRS
#define CB_ADDRS 2
#endif
#define CB_ADDR_LEN 4

struct cb_val { bool drawn; int rc; int idn_rc; bool v4, v6, dom; };
static struct cb_val cb_tab[4][2][CB_ADDRS];
static unsigned char cb_addr[CB_ADDRS][CB_ADDR_LEN + 1];   /* the address pool (content irrelevant to the stubs) */

/* what the last callback invocation saw */
static int  cb_calls;
static int  cb_last_mode = -1;
static const char *cb_last_email;
static size_t cb_last_len;
static bool cb_last_tld;
static eav_result_t *cb_last_result;
static bool cb_bad_addr;

static int cb_addr_id(const char *p)
{
    for (int i = 0; i < CB_ADDRS; i++)
        if (p == (const char *) cb_addr[i]) return i;
    return -1;
}

static struct cb_val *cb_value(int mode, bool tld, int id)
{
    struct cb_val *v = &cb_tab[mode][tld ? 1 : 0][id];
    if (!v->drawn) {
        v->drawn = true;
        v->rc = nondet_int();
        /* documented range: 0, a negative error code, or (TLD checking on) a class */
        VF_ASSUME((v->rc <= 0 && v->rc > -EEAV_MAX) || (tld && v->rc >= TLD_TYPE_NOT_ASSIGNED && v->rc <= TLD_TYPE_RETIRED));
#ifdef CB_IDN_FAULT_ONLY
        VF_ASSUME(v->rc == -EEAV_IDN_ERROR || v->rc == 0);
#endif
        v->idn_rc = nondet_int();
        v->v4 = nondet_bool(); v->v6 = nondet_bool(); v->dom = nondet_bool();
    }
    return v;
}

static eav_result_t *cb_invoke(int mode, const char *email, size_t length, bool tld)
{
    int id = cb_addr_id(email);
    cb_calls++;
    cb_last_mode = mode; cb_last_email = email; cb_last_len = length; cb_last_tld = tld;
    if (id < 0) { cb_bad_addr = true; id = 0; }
    struct cb_val *v = cb_value(mode, tld, id);
    eav_result_t *r = malloc(sizeof *r);
    VF_ASSUME(r != NULL);
    r->is_ipv4 = v->v4; r->is_ipv6 = v->v6; r->is_domain = v->dom;
    r->rc = v->rc;
    r->idn_rc = v->idn_rc;
#ifdef EAV_EXTRA
    r->lpart = NULL; r->domain = NULL;
#endif
    cb_last_result = r;
    return r;
}

eav_result_t *is_822_email(const char *e, size_t l, bool t)  { return cb_invoke(EAV_RFC_822, e, l, t); }
eav_result_t *is_5321_email(const char *e, size_t l, bool t) { return cb_invoke(EAV_RFC_5321, e, l, t); }
eav_result_t *is_5322_email(const char *e, size_t l, bool t) { return cb_invoke(EAV_RFC_5322, e, l, t); }
#ifdef HAVE_IDNKIT
static bool cb_bad_ctx;
eav_result_t *is_6531_email(idn_resconf_t ctx, idn_action_t a, const char *e, size_t l, bool t)
{
    /* C18: the validation must be given a live context (reading a destroyed one is a freed-object dereference) */
    if (ctx == NULL || ctx->live != 1 || a != IDN_ENCODE_REGIST) cb_bad_ctx = true;
    return cb_invoke(EAV_RFC_6531, e, l, t);
}
#else
eav_result_t *is_6531_email(const char *e, size_t l, bool t) { return cb_invoke(EAV_RFC_6531, e, l, t); }
#endif

/* the IDN library's message function: a non-empty message chosen by the code (two messages), argument recorded */
/* longer than any fixed scratch buffer a copy might be squeezed into */
static const char cb_idn_message[] = "idn-library-message: a character is forbidden in non-transitional mode (TR46)";
static int cb_same_text(const char *a, const char *b)
{
    if (a == NULL || b == NULL) return 0;
    for (unsigned i = 0; i < sizeof cb_idn_message; i++) {
        if (a[i] != b[i]) return 0;
        if (a[i] == 0) return 1;
    }
    return 1;
}
/* a second message of the same length: the message is a function of the code (odd / even), so that a
 * message kept from an earlier failure with another code is told apart from this failure's */
static const char cb_idn_message2[] = "idn-library-message: a character is forbidden in non-transitional mode (TR47)";
#define CB_IDN_MSG_FOR(rc) ((((long) (rc)) & 1) ? cb_idn_message2 : cb_idn_message)
#define CB_IS_IDN_MESSAGE(m) (cb_same_text((m), cb_idn_message) || cb_same_text((m), cb_idn_message2))
#define CB_IS_IDN_MESSAGE_FOR(m, rc) cb_same_text((m), CB_IDN_MSG_FOR(rc))
/* messages are compared by content: an implementation may hand out a copy */
#define CB_SAME_MSG(a, b) ((a) == (b) || cb_same_text((a), (b)))
static int cb_strerror_calls;
static long cb_strerror_arg;
#if defined(HAVE_LIBIDN2)
const char *idn2_strerror(int rc) { cb_strerror_calls++; cb_strerror_arg = rc; return CB_IDN_MSG_FOR(rc); }
#elif defined(HAVE_LIBIDN)
const char *idna_strerror(Idna_rc rc) { cb_strerror_calls++; cb_strerror_arg = (int) rc; return CB_IDN_MSG_FOR(rc); }
#elif defined(HAVE_IDNKIT)
const char *idn_result_tostring(idn_result_t rc) { cb_strerror_calls++; cb_strerror_arg = rc; return CB_IDN_MSG_FOR(rc); }
#endif

/* canonical message of an error code, taken from the real eav_errstr */
static const char *cb_msg_of(int code)
{
    eav_t x;
    x.errcode = code;
    x.idnmsg = NULL;
    return eav_errstr(&x);
}

/* reference map class -> allow_tld bit, written from include/eav.h */
static int cb_bit_of_class(int c)
{
    switch (c) {
    case TLD_TYPE_NOT_ASSIGNED: return EAV_TLD_NOT_ASSIGNED;
    case TLD_TYPE_COUNTRY_CODE: return EAV_TLD_COUNTRY_CODE;
    case TLD_TYPE_GENERIC: return EAV_TLD_GENERIC;
    case TLD_TYPE_GENERIC_RESTRICTED: return EAV_TLD_GENERIC_RESTRICTED;
    case TLD_TYPE_INFRASTRUCTURE: return EAV_TLD_INFRASTRUCTURE;
    case TLD_TYPE_SPONSORED: return EAV_TLD_SPONSORED;
    case TLD_TYPE_TEST: return EAV_TLD_TEST;
    case TLD_TYPE_SPECIAL: return EAV_TLD_SPECIAL;
    case TLD_TYPE_RETIRED: return EAV_TLD_RETIRED;
    }
    return 0;
}

static int cb_errcode_of_class(int c)
{
    /* EEAV_TLD_NOT_ASSIGNED .. EEAV_TLD_RETIRED follow the class order */
    return EEAV_TLD_INVALID + c;
}

static void cb_garbage(void *p, size_t n)
{
    unsigned char *b = p;
    for (size_t i = 0; i < n; i++) b[i] = nondet_uchar();
}
#endif
