/* native side of vf.h: replays the nondet draws of a solver trace */
#include <stdio.h>
#include <stdlib.h>
#include <string.h>
#include "vf.h"

static char     vf_types[65536][8];
static unsigned long long vf_vals[65536];
static int vf_cnt, vf_pos, vf_failed;

static unsigned long long next(const char *ty)
{
    if (vf_pos >= vf_cnt) {          /* the trace did not record this draw: irrelevant to the solver */
        vf_pos++;
        return 0;
    }
    if (strcmp(vf_types[vf_pos], ty) != 0) {
        printf("ENCODING-MISMATCH: draw %d is %s in the trace, %s natively\n", vf_pos, vf_types[vf_pos], ty);
        exit(76);
    }
    return vf_vals[vf_pos++];
}
unsigned char nondet_uchar(void) { return (unsigned char) next("uchar"); }
int nondet_int(void) { return (int) (unsigned) next("int"); }
unsigned nondet_uint(void) { return (unsigned) next("uint"); }
size_t nondet_size_t(void) { return (size_t) next("size_t"); }
bool nondet_bool(void) { return next("bool") != 0; }

void vf_assume_fail(const char *c) { printf("ASSUME-FALSE: %s\n", c); fflush(stdout); exit(77); }
void vf_assert_fail(const char *m) { printf("ASSERT-FAIL: %s\n", m); fflush(stdout); vf_failed = 1; }
void vf_cover_hit(const char *l) { printf("COVER-HIT:%s\n", l); fflush(stdout); }

int main(int argc, char **argv)
{
    FILE *f = argc > 1 ? fopen(argv[1], "r") : NULL;
    if (f) {
        while (vf_cnt < 65536 && fscanf(f, "%7s %llu", vf_types[vf_cnt], &vf_vals[vf_cnt]) == 2)
            vf_cnt++;
        fclose(f);
    }
    harness();
    printf("REPLAY-END failed=%d\n", vf_failed);
    return vf_failed ? 1 : 0;
}
