"""Query definitions per property.  tier in {'quick','thorough'}."""
from .core import Query

MODES = [(0, '822', 'src/is_822_local.c', 'is_822_local'),
         (1, '5321', 'src/is_5321_local.c', 'is_5321_local'),
         (2, '5322', 'src/is_5322_local.c', 'is_5322_local'),
         (3, '6531', 'src/is_6531_local.c', 'is_6531_local')]


def D(**kw):
    return ['-D%s=%s' % (k, v) if v is not None else '-D%s' % k for k, v in kw.items()]


# ------------------------------------------------------------------ C02

def c02_queries(tier):
    qs = []
    N = 7 if tier == 'quick' else 10
    for m, name, src, fn in MODES[:3]:
        if tier == 'quick':
            qs.append(Query('C02-local-%s-N%d' % (name, N), 'a_local.c', repo=[src],
                            defs=D(VF_N=N, VF_CTX=2, VF_MODE=m), unwind=N + 4,
                            covers=['end', 'accepted-quoted', 'accepted-dotted', 'rejected'],
                            bounds={'max_len': N, 'ctx_bytes': 2, 'alphabet': '0x01-0xFF'},
                            functions=[fn], timeout=900))
        else:
            for n in range(0, N + 1):
                qs.append(Query('C02-local-%s-len%d' % (name, n), 'a_local.c', repo=[src],
                                defs=D(VF_N=n, VF_CTX=2, VF_MODE=m, VF_EXACT_N=None), unwind=n + 4,
                                covers=['end'] + (['accepted-quoted', 'accepted-dotted', 'rejected'] if n >= 3 else []),
                                bounds={'len': n, 'ctx_bytes': 2, 'alphabet': '0x01-0xFF'},
                                functions=[fn], timeout=3000, weight=n))
    return qs


PROPS = {
    'C02': {
        'queries': c02_queries,
        'level': 'model_checking',
        'outside': ['local parts longer than the stated max_len'],
        'assumptions': ['reference recogniser ref/ref_local.h is the reading of the property text'],
    },
}


def find_query(name):
    for p, s in PROPS.items():
        for t in ('quick', 'thorough'):
            for q in s['queries'](t):
                if q.name == name:
                    return q
    return None
