"""Query definitions per property.  tier in {'quick','thorough'}."""
from .core import Query

MODES = [(0, '822', 'src/is_822_local.c', 'is_822_local'),
         (1, '5321', 'src/is_5321_local.c', 'is_5321_local'),
         (2, '5322', 'src/is_5322_local.c', 'is_5322_local'),
         (3, '6531', 'src/is_6531_local.c', 'is_6531_local')]


def D(**kw):
    return ['-D%s=%s' % (k, v) if v is not None else '-D%s' % k for k, v in kw.items()]


# ------------------------------------------------------------------ C02

def c02_queries(tier):
    qs = []
    N = 7 if tier == 'quick' else 10
    for m, name, src, fn in MODES[:3]:
        if tier == 'quick':
            qs.append(Query('C02-local-%s-N%d' % (name, N), 'a_local.c', repo=[src],
                            defs=D(VF_N=N, VF_CTX=2, VF_MODE=m), unwind=N + 4,
                            covers=['end', 'accepted-quoted', 'accepted-dotted', 'rejected'],
                            bounds={'max_len': N, 'ctx_bytes': 2, 'alphabet': '0x01-0xFF'},
                            functions=[fn], timeout=900))
        else:
            for n in range(0, N + 1):
                qs.append(Query('C02-local-%s-len%d' % (name, n), 'a_local.c', repo=[src],
                                defs=D(VF_N=n, VF_CTX=2, VF_MODE=m, VF_EXACT_N=None), unwind=n + 4,
                                covers=['end'] + (['accepted-quoted', 'accepted-dotted', 'rejected'] if n >= 3 else []),
                                bounds={'len': n, 'ctx_bytes': 2, 'alphabet': '0x01-0xFF'},
                                functions=[fn], timeout=3000, weight=n))
    return qs


EMAIL_SRC = ['src/is_822_email.c', 'src/is_5321_email.c', 'src/is_5322_email.c', 'partial/idn2/is_6531_email.c']
EMAIL_FN = ['is_822_email', 'is_5321_email', 'is_5322_email', 'is_6531_email']


def email_query(prefix, m, N, extra_defs=(), covers=None, timeout=900, **kw):
    name = MODES[m][1]
    cov = covers if covers is not None else ['end', 'accepted-hostname', 'accepted-literal', 'tld-class']
    return Query('%s-email-%s-N%d' % (prefix, name, N), 'b_email.c', repo=[EMAIL_SRC[m], 'src/eav.c'],
                 defs=D(VF_N=N, VF_MODE=m) + list(extra_defs), unwind=N + 2,
                 covers=cov, leak=True,
                 optional_covers=['lpart-too-long', 'accepted-lpart-64', 'special', 'not-fqdn', 'idn-error',
                                  'accepted-tagged-v6', 'accepted-v4', 'accepted-untagged-v6', 'lpart-64-rejected-by-leaf'],
                 bounds={'max_address_len': N, 'tld_check': 'symbolic', 'alphabet': '0x01-0xFF'},
                 functions=[EMAIL_FN[m], 'eav_result_free', 'basic_email_check/check_tld/check_ip (macros)'],
                 note='leaf validators are recording uninterpreted stubs (harness/leafstubs.h)',
                 timeout=timeout, **kw)


def c01_queries(tier):
    N = 24 if tier == 'quick' else 40
    qs = [email_query('C01', m, N, timeout=3000) for m in range(4)]
    # long family across the 64/65 boundary: bytes [3,61) hold one symbolic non-structural byte
    L = 72 if tier == 'quick' else 80
    for m in range(4):
        q = email_query('C01long', m, L, extra_defs=D(VF_FILL_FROM=3, VF_FILL_TO=61, VF_MIN_LEN=60),
                        covers=['end', 'lpart-too-long', 'accepted-lpart-64'], timeout=3000)
        q.bounds = {'max_address_len': L, 'min_address_len': 60, 'structure': 'bytes [3,61) = one symbolic byte not in {@ [ ] . :}; all other bytes arbitrary'}
        qs.append(q)
    return qs


API_SRC = ['partial/idn2/eav.c', 'src/eav.c']
API_FN = ['eav_init', 'eav_setup', 'eav_is_email', 'eav_errstr', 'eav_free', 'eav_result_free']


def single_query(prefix, backend='idn2', extra=(), **kw):
    return Query('%s-api-single-%s' % (prefix, backend), 'c_single.c',
                 repo=['partial/%s/eav.c' % backend, 'src/eav.c'], defs=list(extra), unwind=CB_UNW, leak=True,
                 idn=None if backend == 'idn2' else backend,
                 covers=['end', 'invalid-rfc', 'class-allowed', 'class-denied', 'idn-error', 'accepted', 'rejected'],
                 bounds={'allow_tld': 'any int (2^32)', 'rfc': 'any int (2^32)', 'callback rc': '0, -1..-35, classes 1..9',
                         'tld_check': 'both', 'eav_t initial bytes': 'arbitrary'},
                 functions=API_FN, note='callbacks and idn2_strerror are uninterpreted stubs (harness/cbstubs.h)', **kw)


CB_UNW = 130   # > sizeof(eav_t) for the garbage-fill loop; > EEAV_MAX for the message loop


def history_query(prefix, K, backend='idn2', extra=(), addrs=2, **kw):
    return Query('%s-api-history-%s-K%d' % (prefix, backend, K), 'c_history.c',
                 repo=['partial/%s/eav.c' % backend, 'src/eav.c'],
                 defs=D(VF_K=K, CB_ADDRS=addrs) + list(extra), unwind=CB_UNW, unwindset={'harness.1': K + 1}, leak=True,
                 idn=None if backend == 'idn2' else backend,
                 covers=['end', 'two-validations', 'reinit-after-use', 'accept-after-earlier-validation'],
                 optional_covers=['idn-fault-after-earlier-validation', 'failed-setup-after-success'],
                 bounds={'operations': K, 'address_pool': addrs, 'settings': 'any int / bool',
                         'callback results': 'uninterpreted function of (mode,tld_check,address)'},
                 functions=API_FN, note='callbacks uninterpreted; compared with a fresh object after every validation', **kw)


def c08_queries(tier):
    qs = [single_query('C08')]
    N = 16 if tier == 'quick' else 40
    qs += [email_query('C08', m, N, covers=['end', 'accepted-hostname', 'accepted-literal']) for m in range(4)]
    return qs


def c13_queries(tier):
    K = 4 if tier == 'quick' else 6
    return [history_query('C13', K, timeout=3000)]


def c15_queries(tier):
    qs = [single_query('C15')]
    return qs


LOCAL_SRCS = ['src/is_822_local.c', 'src/is_5321_local.c', 'src/is_5322_local.c', 'src/is_6531_local.c', 'src/utf8_decode.c']


def cross_query(prefix, kind, N, covers, label, srcs=None, ctx=1, **kw):
    return Query('%s-cross-%s-N%d' % (prefix, label, N), 'a_local_cross.c', repo=srcs or LOCAL_SRCS,
                 defs=D(VF_N=N, VF_CROSS=kind, VF_CTX=ctx), unwind=N + ctx + 6, covers=['end'] + covers,
                 bounds={'max_len': N, 'ctx_bytes': ctx}, functions=['is_822_local', 'is_5321_local', 'is_5322_local', 'is_6531_local'], **kw)


def c03_queries(tier):
    qs = []
    for L in range(0, 5):
        qs.append(Query('C03-utf8dec-L%d' % L, 'a_utf8dec.c', repo=['src/utf8_decode.c'], defs=D(VF_L=L), unwind=6,
                        covers=['end'] + (['four-byte', 'error-surrogate-lead', 'error-overlong-lead'] if L == 4 else []),
                        optional_covers=['three-byte', 'two-byte', 'error-surrogate-lead', 'error-overlong-lead', 'four-byte'],
                        bounds={'window_bytes': L, 'exhaustive_over_window': True},
                        functions=['utf8_decode_init', 'utf8_decode_next', 'utf8_decode_at_byte', 'get', 'cont']))
    N = 7 if tier == 'quick' else 10
    src = ['src/is_6531_local.c', 'src/utf8_decode.c']
    if tier == 'quick':
        qs.append(Query('C03-local-6531-N%d' % N, 'a_local.c', repo=src, defs=D(VF_N=N, VF_CTX=2, VF_MODE=3), unwind=N + 4,
                        covers=['end', 'accepted-quoted', 'accepted-dotted', 'rejected', 'accepted-multibyte'],
                        bounds={'max_len': N, 'ctx_bytes': 2, 'alphabet': '0x01-0xFF'}, functions=['is_6531_local', 'utf8_decode_next'],
                        timeout=900))
    else:
        for n in range(0, N + 1):
            qs.append(Query('C03-local-6531-len%d' % n, 'a_local.c', repo=src,
                            defs=D(VF_N=n, VF_CTX=2, VF_MODE=3, VF_EXACT_N=None), unwind=n + 4,
                            covers=['end'] + (['accepted-quoted', 'accepted-dotted', 'rejected', 'accepted-multibyte'] if n >= 3 else []),
                            bounds={'len': n, 'ctx_bytes': 2, 'alphabet': '0x01-0xFF'}, functions=['is_6531_local', 'utf8_decode_next'],
                            timeout=3000, weight=n))
    M = 8 if tier == 'quick' else 11
    qs.append(cross_query('C03', 1, M, ['both-accept-quoted', 'both-reject'], 'ascii-6531-vs-5321',
                          srcs=['src/is_5321_local.c', 'src/is_6531_local.c', 'src/utf8_decode.c'], timeout=3000))
    qs.append(cross_query('C03', 4, 8, ['x-four-byte', 'x-two-byte'], 'aXb', srcs=src))
    return qs


def c04_queries(tier):
    qs = []
    N = 9 if tier == 'quick' else 12
    for us in (0, 1):
        extra = ['-DLABELS_ALLOW_UNDERSCORE'] if us else []
        qs.append(Query('C04-domain%s-N%d' % ('-us' if us else '', N), 'a_domain.c', repo=['src/is_ascii_domain.c'],
                        defs=D(VF_N=N) + extra, unwind=N + 3,
                        covers=['end', 'accepted-root-dot', 'accepted-hyphen', 'numeric', 'misplaced-hyphen'],
                        bounds={'max_len': N, 'alphabet': '0x01-0xFF', 'LABELS_ALLOW_UNDERSCORE': bool(us)},
                        functions=['is_ascii_domain'], timeout=3000))
    K = 4
    qs.append(Query('C04-domain-struct-K%d' % K, 'a_domain.c', repo=['src/is_ascii_domain.c'],
                    defs=D(VF_STRUCT=K, VF_MAXLEN=262), unwind=264, unwindset={'harness.1': K + 1, 'harness.3': K + 1},
                    covers=['end', 'rejected-label-too-long', 'accepted-label-63', 'accepted-total-253',
                            'accepted-total-253-plus-root', 'rejected-254'],
                    bounds={'total_len': '1..262', 'dots': '%d symbolic positions' % K, 'content': 'one symbolic fill byte + two arbitrary bytes at symbolic positions'},
                    functions=['is_ascii_domain'], timeout=3000, weight=5))
    return qs


def ip_query(prefix, fn, N, ctx, covers, alphabet=False, **kw):
    name = {4: 'ipv4', 6: 'ipv6', 0: 'ipaddr'}[fn]
    stub = fn in (6, 0)
    unit = ('src/is_ipv4_ipv6.c', [], ['is_ipv4'] if fn == 6 else ['is_ipv4', 'is_ipv6']) if stub else 'src/is_ipv4_ipv6.c'
    return Query('%s-%s-N%d%s' % (prefix, name, N, '-ipalpha' if alphabet else ''), 'a_ip.c', repo=[unit],
                 defs=D(VF_N=N, VF_CTX=ctx, VF_FN=fn) + (['-DVF_ALPHABET_IP'] if alphabet else []) + (['-DVF_STUB_V4'] if stub else []),
                 unwind=N + ctx + 3, unwindset={'strspn.0': 24}, covers=['end'] + covers,
                 bounds={'max_len': N, 'ctx': 'NUL | "]" NUL' + (' | "]" byte NUL' if ctx == 2 else ''),
                         'alphabet': 'hex digits, ":", ".", one other byte' if alphabet else '0x01-0xFF'},
                 functions=['is_' + name],
                 note=('nested is_ipv4 replaced by an uninterpreted verdict within the bounds proved for the real is_ipv4' if fn == 6 else 'is_ipv4/is_ipv6 replaced by uninterpreted verdicts: dispatch only' if fn == 0 else ''), **kw)


def c05_queries(tier):
    qs = []
    if tier == 'quick':
        qs.append(ip_query('C05', 4, 12, 2, ['accepted-short-quad', 'between-bounds']))
        qs.append(ip_query('C05', 6, 10, 2, ['accepted-double-colon', 'accepted-trailing-dc', 'accepted-v4-tail']))
        qs.append(ip_query('C05', 0, 9, 1, ['accepted-v6', 'accepted-v4']))
    else:
        qs.append(ip_query('C05', 4, 16, 2, ['accepted-short-quad', 'between-bounds', 'accepted-long-quad'], timeout=3000))
        qs.append(ip_query('C05', 6, 13, 2, ['accepted-double-colon', 'accepted-trailing-dc', 'accepted-v4-tail'], timeout=3000))
        qs.append(ip_query('C05', 6, 20, 1, ['accepted-double-colon', 'accepted-trailing-dc', 'accepted-v4-tail'], alphabet=True, timeout=3000))
        qs.append(ip_query('C05', 0, 12, 1, ['accepted-v6', 'accepted-v4'], timeout=3000))
    Nb = 20 if tier == 'quick' else 40
    qs += [email_query('C05', m, Nb, covers=['end', 'accepted-literal', 'accepted-tagged-v6', 'accepted-v4', 'accepted-untagged-v6'],
                       timeout=3000) for m in range(4)]
    return qs


PROPS = {
    'C05': {
        'queries': c05_queries,
        'level': 'model_checking',
        'outside': ['literal contents longer than max_len', 'bytes after the end pointer other than "]" (no caller passes them)'],
        'assumptions': ['reference recognisers ref/ref_ip.h: U = RFC 4291 text form, L = RFC 5321 section 4.1.3'],
    },
    'C04': {
        'queries': c04_queries,
        'level': 'model_checking',
        'outside': ['arbitrary content on strings longer than max_len (only the structured family goes to 262 bytes)',
                    'mode 6531: the IDNA conversion itself (libidn2 is a binary); the pipeline around it is C10/C07'],
        'assumptions': ['reference recogniser ref/ref_domain.h is the reading of the property text',
                        'the domain range ends at the terminating NUL (as in every call made by the library)'],
    },
    'C03': {
        'queries': c03_queries,
        'level': 'model_checking',
        'outside': ['local parts longer than max_len; the decoder itself is covered completely (all windows of 0-4 bytes)',
                    'lengths >= 2^31 (utf8_decode_init takes int)'],
        'assumptions': ['reference recogniser ref/ref_local.h (Unicode Table 3-7 + RFC 5321 grammar) is the reading of the property text'],
    },
    'C08': {
        'queries': c08_queries,
        'level': 'model_checking',
        'outside': ['the idn/idnkit copies of eav.c are covered by C18'],
        'explanation': 'policy layer decided without bound: allow_tld and rfc are unconstrained 32-bit values',
    },
    'C13': {
        'queries': c13_queries,
        'level': 'model_checking',
        'outside': ['histories longer than the stated number of operations'],
    },
    'C15': {
        'queries': c15_queries,
        'level': 'model_checking',
        'outside': [],
    },
    'C01': {
        'queries': c01_queries,
        'level': 'model_checking',
        'outside': ['addresses longer than max_address_len'],
        'assumptions': ['leaf validators behave as arbitrary functions of their (start,end) range with the documented result range'],
    },
    'C02': {
        'queries': c02_queries,
        'level': 'model_checking',
        'outside': ['local parts longer than the stated max_len'],
        'assumptions': ['reference recogniser ref/ref_local.h is the reading of the property text'],
    },
}


def find_query(name):
    for p, s in PROPS.items():
        for t in ('quick', 'thorough'):
            for q in s['queries'](t):
                if q.name == name:
                    return q
    return None
