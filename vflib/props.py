"""Query definitions per property.  tier in {'quick','thorough'}."""
from .core import Query
from . import pre

HOOK_COMMITS = ['8bf7d1b']
NA = {}

MODES = [(0, '822', 'src/is_822_local.c', 'is_822_local'),
         (1, '5321', 'src/is_5321_local.c', 'is_5321_local'),
         (2, '5322', 'src/is_5322_local.c', 'is_5322_local'),
         (3, '6531', 'src/is_6531_local.c', 'is_6531_local')]


def D(**kw):
    return ['-D%s=%s' % (k, v) if v is not None else '-D%s' % k for k, v in kw.items()]


# ------------------------------------------------------------------ C02

def local_exact(prefix, m, n, ctx=2, extra=(), **kw):
    mm, name, src, fn = MODES[m]
    srcs = [src] + (['src/utf8_decode.c'] if m == 3 else [])
    cov = ['end'] + (['accepted-quoted', 'accepted-dotted', 'rejected'] + (['accepted-multibyte'] if m == 3 else []) if n >= 3 else [])
    return Query('%s-local-%s-len%d' % (prefix, name, n), 'a_local.c', repo=srcs,
                 defs=D(VF_N=n, VF_CTX=ctx, VF_MODE=m, VF_EXACT_N=None) + list(extra), unwind=n + ctx + 3, covers=cov,
                 bounds={'len': n, 'ctx_bytes': ctx, 'alphabet': '0x01-0xFF (every byte arbitrary)'},
                 functions=[fn], timeout=3000, weight=n, **kw)


def local_long(prefix, m, N=68, K=3, ascii_only=False, **kw):
    mm, name, src, fn = MODES[m]
    srcs = [src] + (['src/utf8_decode.c'] if m == 3 else [])
    return Query('%s-local-%s-long-N%d' % (prefix, name, N), 'a_local.c', repo=srcs,
                 defs=D(VF_N=N, VF_CTX=1, VF_MODE=m, VF_LONG=K) + (['-DVF_ASCII_ONLY'] if ascii_only else []),
                 unwind=N + 4, covers=['end', 'accepted-quoted', 'rejected'], solver='cadical',
                 bounds={'max_len': N, 'structure': 'one symbolic fill byte + %d arbitrary bytes at symbolic positions%s' % (K, ', ASCII only' if ascii_only else '')},
                 functions=[fn], timeout=3000, weight=50, **kw)


def c02_queries(tier):
    qs = []
    if tier == 'quick':
        for m in (1, 2):
            qs += [local_exact('C02', m, n) for n in list(range(0, 17)) + [63, 64, 65, 66]]
        qs += [local_exact('C02', 0, n) for n in list(range(0, 17)) + [24]]
    else:
        for m in (1, 2):
            qs += [local_exact('C02', m, n) for n in range(0, 73)]
        qs += [local_exact('C02', 0, n) for n in list(range(0, 41)) + [48]]
        qs.append(local_long('C02', 0))
    return qs


EMAIL_SRC = ['src/is_822_email.c', 'src/is_5321_email.c', 'src/is_5322_email.c', 'partial/idn2/is_6531_email.c']
EMAIL_FN = ['is_822_email', 'is_5321_email', 'is_5322_email', 'is_6531_email']


def email_query(prefix, m, N, extra_defs=(), covers=None, timeout=900, **kw):
    name = MODES[m][1]
    cov = covers if covers is not None else ['end', 'accepted-hostname', 'accepted-literal', 'tld-class']
    return Query('%s-email-%s-N%d' % (prefix, name, N), 'b_email.c', repo=[EMAIL_SRC[m], 'src/eav.c'],
                 defs=D(VF_N=N, VF_MODE=m, VF_STRNDUP_MAX=N + 2) + list(extra_defs), unwind=N + 4,
                 covers=cov, leak=True,
                 optional_covers=['lpart-too-long', 'accepted-lpart-64', 'special', 'not-fqdn', 'idn-error',
                                  'accepted-tagged-v6', 'accepted-v4', 'accepted-untagged-v6', 'lpart-64-rejected-by-leaf'],
                 bounds={'max_address_len': N, 'tld_check': 'symbolic', 'alphabet': '0x01-0xFF'},
                 functions=[EMAIL_FN[m], 'eav_result_free', 'basic_email_check/check_tld/check_ip (macros)'],
                 note='leaf validators are recording uninterpreted stubs (harness/leafstubs.h)',
                 timeout=timeout, **kw)


def email_exact(prefix, m, n, **kw):
    q = email_query(prefix, m, n, extra_defs=['-DVF_EXACT_N'], covers=['end'], timeout=5000, **kw)
    q.name = q.name.replace('-N%d' % n, '-len%d' % n)
    q.bounds = {'address_len': n, 'tld_check': 'symbolic', 'alphabet': '0x01-0xFF (every byte arbitrary)'}
    q.optional_covers += ['accepted-hostname', 'accepted-literal', 'tld-class']
    q.weight = n
    return q


GLUE_LEAF = ['src/is_822_local.c', 'src/is_5321_local.c', 'src/is_5322_local.c', 'src/is_ascii_domain.c',
             'src/is_special_domain.c', 'src/is_tld.c', 'src/auto_tld.c', 'src/eav.c']


def glue_query(m, n, literal=False, **kw):
    ipunit = 'src/is_ipv4_ipv6.c' if literal else ('src/is_ipv4_ipv6.c', [], ['is_ipaddr', 'is_ipv4', 'is_ipv6'])
    return Query('C01-glue-%s-%s-len%d' % ('literal' if literal else 'host', MODES[m][1], n), 'g_glue.c',
                 repo=[EMAIL_SRC[m]] + GLUE_LEAF + [ipunit],
                 defs=D(VF_N=n, VF_MODE=m) + (['-DVF_GLUE_LIT'] if literal else ['-DVF_GLUE_HOST']), unwind=n + 4,
                 unwindset={'strspn.0': 24} if literal else None, object_bits=13, leak=True,
                 covers=['end'] + (['accepted-literal'] if literal else (['accepted-hostname', 'rejected-with-at'] if n >= 4 else [])),
                 bounds={'address_len': n, 'tld_check': 'off',
                         'structure': 'x@[...] skeleton concrete, every other byte arbitrary' if literal else 'every byte arbitrary except that "[" does not occur'},
                 functions=[EMAIL_FN[m], MODES[m][3], 'is_ascii_domain'] + (['is_ipaddr', 'is_ipv4', 'is_ipv6'] if literal else []),
                 note='UNDECOMPOSED: the real email function with all its real callees against the property statement composed from the references',
                 timeout=5000, weight=n * (20 if literal else 1), **kw)


def c01_queries(tier):
    N = 24 if tier == 'quick' else 40
    qs = [email_query('C01', m, N, timeout=3000) for m in range(4)]
    # around the 64/65-octet boundary: every byte arbitrary, one query per length
    lens = (65, 66, 67) if tier == 'quick' else (64, 65, 66, 67, 68, 70, 72, 80)
    for m in range(4):
        for n in lens:
            q = email_exact('C01', m, n)
            if n == 66:
                q.covers = ['end', 'accepted-lpart-64']
            if n == 67:
                q.covers = ['end', 'lpart-too-long']
            qs.append(q)
    # glue: the undecomposed real functions against the composed references
    for m in range(3):
        if tier == 'quick':
            qs += [glue_query(m, n) for n in list(range(3, 17)) + [24]]
        else:
            qs += [glue_query(m, n) for n in list(range(3, 33)) + ([40, 66, 67, 68] if m in (1, 2) else [])]
    if tier != 'quick':
        qs += [glue_query(1, 11, literal=True), glue_query(1, 12, literal=True)]
    return qs


API_SRC = ['partial/idn2/eav.c', 'src/eav.c']
API_FN = ['eav_init', 'eav_setup', 'eav_is_email', 'eav_errstr', 'eav_free', 'eav_result_free']


def single_query(prefix, backend='idn2', extra=(), **kw):
    return Query('%s-api-single-%s' % (prefix, backend), 'c_single.c',
                 repo=['partial/%s/eav.c' % backend, 'src/eav.c'], defs=list(extra), unwind=CB_UNW, leak=True,
                 idn=None if backend == 'idn2' else backend,
                 covers=['end', 'invalid-rfc', 'class-allowed', 'class-denied', 'idn-error', 'accepted', 'rejected'],
                 bounds={'allow_tld': 'any int (2^32)', 'rfc': 'any int (2^32)', 'callback rc': '0, -1..-35, classes 1..9',
                         'tld_check': 'both', 'eav_t initial bytes': 'arbitrary'},
                 functions=API_FN, note='callbacks and idn2_strerror are uninterpreted stubs (harness/cbstubs.h)', **kw)


CB_UNW = 130   # > sizeof(eav_t) for the garbage-fill loop; > EEAV_MAX for the message loop


def history_query(prefix, K, backend='idn2', extra=(), addrs=2, covers_override=False, **kw):
    if covers_override is None:
        kw['covers'] = ['end', 'two-validations', 'idn-fault-after-earlier-validation', 'accept-after-earlier-validation']
    return _history_query(prefix, K, backend, extra, addrs, **kw)


def _history_query(prefix, K, backend, extra, addrs, covers=None, **kw):
    return Query('%s-api-history-%s-K%d' % (prefix, backend, K), 'c_history.c',
                 repo=['partial/%s/eav.c' % backend, 'src/eav.c'],
                 defs=D(VF_K=K, CB_ADDRS=addrs) + list(extra), unwind=CB_UNW, unwindset={'harness.1': K + 1}, leak=True,
                 idn=None if backend == 'idn2' else backend,
                 covers=covers or ['end', 'two-validations', 'reinit-after-use', 'accept-after-earlier-validation'],
                 optional_covers=['idn-fault-after-earlier-validation', 'failed-setup-after-success', 'reinit-after-use', 'failed-setup-after-validation'],
                 bounds={'operations': K, 'address_pool': addrs, 'settings': 'any int / bool',
                         'callback results': 'uninterpreted function of (mode,tld_check,address)'},
                 functions=API_FN, note='callbacks uninterpreted; compared with a fresh object after every validation', **kw)


def c08_queries(tier):
    qs = [single_query('C08'), utf8dom_query('C08', 8, 8), tld_query('C08', 2, 8, twice=True), tld_query('C08', 3, 3)]
    N = 16 if tier == 'quick' else 40
    qs += [email_query('C08', m, N, covers=['end', 'accepted-hostname', 'accepted-literal']) for m in range(4)]
    return qs


def inductive_query(prefix, backend='idn2', **kw):
    return Query('%s-api-inductive-step-%s' % (prefix, backend), 'c_inductive.c', repo=['partial/%s/eav.c' % backend, 'src/eav.c'],
                 unwind=CB_UNW, leak=True, idn=None if backend == 'idn2' else backend,
                 covers=['end', 'validated', 'leave-6531', 'enter-6531', 'failed-setup-in-6531', 'accept-after-idn-error'],
                 bounds={'pre-state': 'ANY eav_t satisfying the representation invariant INV (harness/c_inductive.c)', 'operations': 1,
                         'settings': 'any int / bool', 'callback results': 'uninterpreted'},
                 functions=API_FN, note='one inductive step from an arbitrary invariant-satisfying state + base case eav_init: histories of any length', **kw)


def c13_queries(tier):
    K = 4 if tier == 'quick' else 6
    return [history_query('C13', K, timeout=3000), inductive_query('C13'), tld_query('C13', 2, 8, twice=True)]


def c15_queries(tier):
    K = 4 if tier == 'quick' else 6
    qs = [single_query('C15'), history_query('C15', K, covers=['end', 'two-validations', 'failed-setup-after-validation'], timeout=3000),
          tld_query('C15', 2, 63), inductive_query('C15')]
    codecov = ['code-too-many-dots', 'code-misplaced-dot', 'code-special', 'code-ctrl', 'code-misplaced-quote', 'code-unquoted']
    for m in range(4):
        for n in (range(0, 11) if tier == 'quick' else range(0, 19)):
            q = local_exact('C15-codes', m, n, ctx=1, extra=['-DVF_CHECK_CODES'])
            if n >= 4:
                q.covers = q.covers + codecov
            qs.append(q)
    for n in (list(range(0, 17)) + [64, 65] if tier == 'quick' else list(range(0, 41)) + [64, 65, 66, 128, 254, 255]):
        q = domain_exact('C15-codes', n, extra=['-DVF_CHECK_CODES'])
        if 6 <= n <= 254:
            q.covers = q.covers + ['code-delimiter', 'code-invalid-char', 'numeric', 'misplaced-hyphen']
        qs.append(q)
    Ne = 16 if tier == 'quick' else 40
    qs += [email_query('C15', m, Ne, covers=['end', 'accepted-hostname', 'accepted-literal']) for m in range(4)]
    return qs


LOCAL_SRCS = ['src/is_822_local.c', 'src/is_5321_local.c', 'src/is_5322_local.c', 'src/is_6531_local.c', 'src/utf8_decode.c']


def cross_query(prefix, kind, N, covers, label, srcs=None, ctx=1, exact=False, **kw):
    return Query('%s-cross-%s-%s%d' % (prefix, label, 'len' if exact else 'N', N), 'a_local_cross.c', repo=srcs or LOCAL_SRCS,
                 defs=D(VF_N=N, VF_CROSS=kind, VF_CTX=ctx) + (['-DVF_EXACT_N'] if exact else []), unwind=N + ctx + 6,
                 covers=['end'] + (covers if (not exact or N >= 4) else []),
                 bounds=({'len': N} if exact else {'max_len': N}) | {'ctx_bytes': ctx},
                 functions=['is_822_local', 'is_5321_local', 'is_5322_local', 'is_6531_local'], weight=N, **kw)


def cross_family(prefix, kind, covers, label, lens, srcs=None):
    return [cross_query(prefix, kind, n, covers, label, srcs=srcs, exact=True, timeout=3000) for n in lens]


def c03_queries(tier):
    qs = []
    for L in range(0, 5):
        qs.append(Query('C03-utf8dec-L%d' % L, 'a_utf8dec.c', repo=['src/utf8_decode.c'], defs=D(VF_L=L), unwind=6,
                        covers=['end'] + (['four-byte', 'error-surrogate-lead', 'error-overlong-lead'] if L == 4 else []),
                        optional_covers=['three-byte', 'two-byte', 'error-surrogate-lead', 'error-overlong-lead', 'four-byte'],
                        bounds={'window_bytes': L, 'exhaustive_over_window': True},
                        functions=['utf8_decode_init', 'utf8_decode_next', 'utf8_decode_at_byte', 'get', 'cont']))
    src = ['src/is_6531_local.c', 'src/utf8_decode.c']
    if tier == 'quick':
        qs += [local_exact('C03', 3, n) for n in range(0, 13)]
    else:
        qs += [local_exact('C03', 3, n) for n in list(range(0, 19)) + [20]]
        qs.append(local_long('C03', 3, ascii_only=True))
    lens = list(range(0, 25)) if tier == 'quick' else list(range(0, 49)) + [63, 64, 65, 66]
    qs += cross_family('C03', 1, ['both-accept-quoted', 'both-reject'], 'ascii-6531-vs-5321', lens,
                       srcs=['src/is_5321_local.c', 'src/is_6531_local.c', 'src/utf8_decode.c'])
    qs.append(cross_query('C03', 4, 8, ['x-four-byte', 'x-two-byte'], 'aXb', srcs=src))
    return qs


def domain_exact(prefix, n, us=False, extra=(), **kw):
    return Query('%s-domain%s-len%d' % (prefix, '-us' if us else '', n), 'a_domain.c', repo=['src/is_ascii_domain.c'],
                 defs=D(VF_N=n, VF_EXACT_N=None) + (['-DLABELS_ALLOW_UNDERSCORE'] if us else []) + list(extra), unwind=n + 3,
                 covers=['end'] + (['accepted-root-dot', 'accepted-hyphen'] if 6 <= n <= 254 else []),
                 bounds={'len': n, 'alphabet': '0x01-0xFF (every byte arbitrary)', 'LABELS_ALLOW_UNDERSCORE': bool(us)},
                 functions=['is_ascii_domain'], timeout=5000, weight=n, solver='cadical' if n > 100 else None, **kw)


def c04_queries(tier):
    qs = []
    if tier == 'quick':
        qs += [domain_exact('C04', n) for n in list(range(0, 25)) + [63, 64, 65, 66, 67]]
        qs += [domain_exact('C04', n, us=True) for n in range(0, 17)]
    else:
        qs += [domain_exact('C04', n) for n in list(range(0, 73)) + [96, 128, 192, 252, 253, 254, 255, 256]]
        qs += [domain_exact('C04', n, us=True) for n in list(range(0, 33)) + [64, 65]]
    qs.append(utf8dom_query('C04', 8, 8))
    def struct(name, K, maxlen, extra, covers, bounds, **kw):
        return Query('C04-domain-struct-' + name, 'a_domain.c', repo=['src/is_ascii_domain.c'],
                     defs=D(VF_STRUCT=K, VF_MAXLEN=maxlen) + extra, unwind=maxlen + 2,
                     covers=['end'] + covers, bounds=bounds, functions=['is_ascii_domain'], solver='cadical', **kw)
    edge = dict(name='edge253', K=4, maxlen=262, extra=D(VF_FIXDOTS=None, VF_MINLEN=240),
                covers=['accepted-total-253', 'accepted-total-253-plus-root', 'rejected-254'],
                bounds={'total_len': '240..262', 'prefix': '3 labels of 63 x "a"', 'dots': '1 further symbolic position',
                        'content': 'fill "a" + two arbitrary bytes at symbolic positions >= 192'})
    content = 'one symbolic fill byte + two arbitrary bytes at symbolic positions'
    if tier == 'quick':
        qs.append(struct('labels-K2-L72', 2, 72, [], ['rejected-label-too-long', 'accepted-label-63'],
                         {'total_len': '1..72', 'dots': '2 symbolic positions (3 labels of length 0..70)', 'content': content},
                         timeout=1500, weight=5))
        qs.append(struct(timeout=1500, weight=9, **edge))
    else:
        qs.append(struct('labels-K4-L262', 4, 262, [], ['rejected-label-too-long', 'accepted-label-63', 'accepted-total-253',
                                                        'accepted-total-253-plus-root', 'rejected-254'],
                         {'total_len': '1..262', 'dots': '4 symbolic positions (up to 5 labels, root dot included)', 'content': content},
                         timeout=7000, weight=9))
        qs.append(struct(timeout=7000, weight=5, **edge))
    return qs


def ip_query(prefix, fn, N, ctx, covers, alphabet=False, **kw):
    name = {4: 'ipv4', 6: 'ipv6', 0: 'ipaddr'}[fn]
    stub = fn in (6, 0)
    unit = ('src/is_ipv4_ipv6.c', [], ['is_ipv4'] if fn == 6 else ['is_ipv4', 'is_ipv6']) if stub else 'src/is_ipv4_ipv6.c'
    return Query('%s-%s-N%d%s' % (prefix, name, N, '-ipalpha' if alphabet else ''), 'a_ip.c', repo=[unit],
                 defs=D(VF_N=N, VF_CTX=ctx, VF_FN=fn) + (['-DVF_ALPHABET_IP'] if alphabet else []) + (['-DVF_STUB_V4'] if stub else []),
                 unwind=N + ctx + 3, unwindset={'strspn.0': 24}, covers=['end'] + covers,
                 bounds={'max_len': N, 'ctx': 'NUL | "]" NUL' + (' | "]" byte NUL' if ctx == 2 else ''),
                         'alphabet': 'hex digits, ":", ".", one other byte' if alphabet else '0x01-0xFF'},
                 functions=['is_' + name],
                 note=('nested is_ipv4 replaced by an uninterpreted verdict within the bounds proved for the real is_ipv4' if fn == 6 else 'is_ipv4/is_ipv6 replaced by uninterpreted verdicts: dispatch only' if fn == 0 else ''), **kw)


def ip_exact(prefix, fn, n, ctx=1, alphabet=False, **kw):
    q = ip_query(prefix, fn, n, ctx, [], alphabet=alphabet, **kw)
    q.name = q.name.replace('-N%d' % n, '-len%d' % n)
    q.defs.append('-DVF_EXACT_N')
    q.bounds = dict(q.bounds, len=n)
    q.bounds.pop('max_len', None)
    q.weight = n
    return q


def ip_struct6(prefix, N, timeout):
    """structured IPv6 family up to the maximum textual length (45) and one beyond"""
    q = ip_query(prefix, 6, N, 1, ['accepted-double-colon', 'accepted-trailing-dc', 'accepted-v4-tail'], timeout=timeout)
    q.name += '-struct'
    q.defs.append('-DVF_STRUCT6')
    q.solver = 'cadical'
    q.bounds = {'max_len': N, 'structure': 'one symbolic hex fill digit, ":" at <= 9 and "." at <= 4 symbolic positions, one arbitrary byte'}
    return q


def c05_queries(tier):
    qs = []
    v6c = ['accepted-double-colon', 'accepted-trailing-dc', 'accepted-v4-tail']
    if tier == 'quick':
        qs.append(ip_query('C05', 4, 12, 2, ['accepted-short-quad', 'between-bounds']))
        qs += [ip_exact('C05', 4, n) for n in (13, 14, 15, 16)]
        qs.append(ip_query('C05', 6, 10, 2, v6c))
        qs += [ip_exact('C05', 6, n, timeout=1500) for n in range(11, 17)]
        q = ip_query('C05', 6, 20, 1, v6c, alphabet=True, timeout=1500)
        q.solver = 'cadical'
        qs.append(q)
        qs.append(ip_query('C05', 0, 9, 1, ['accepted-v6', 'accepted-v4']))
    else:
        qs.append(ip_query('C05', 4, 16, 2, ['accepted-short-quad', 'between-bounds', 'accepted-long-quad'], timeout=3000))
        qs += [ip_exact('C05', 4, n) for n in range(17, 25)]
        qs.append(ip_query('C05', 6, 12, 2, v6c, timeout=3000))
        qs += [ip_exact('C05', 6, n, timeout=5000) for n in list(range(13, 25)) + [28, 32]]
        q = ip_query('C05', 6, 22, 1, v6c, alphabet=True, timeout=5000)
        q.solver = 'cadical'
        qs.append(q)
        q = ip_query('C05', 6, 24, 1, v6c, timeout=5000)
        q.name += '-struct'
        q.defs.append('-DVF_STRUCT6')
        q.solver = 'cadical'
        q.bounds = {'max_len': 24, 'structure': 'one symbolic hex fill digit, ":" at <= 9 and "." at <= 4 symbolic positions, one arbitrary byte'}
        qs.append(q)
        qs.append(ip_query('C05', 0, 12, 1, ['accepted-v6', 'accepted-v4'], timeout=3000))
    Nb = 20 if tier == 'quick' else 40
    qs += [email_query('C05', m, Nb, covers=['end', 'accepted-literal', 'accepted-tagged-v6', 'accepted-v4', 'accepted-untagged-v6'],
                       timeout=3000) for m in range(4)]
    # the longest literal: "[IPv6:" + 45 address characters + "]" = 52 bytes; with "x@" in front 54: every byte
    # arbitrary, one query per address length around it (a length limit inside check_ip shows up here)
    for m in range(4):
        for n in ((54, 55) if tier == 'quick' else (50, 52, 53, 54, 55, 56, 58, 60)):
            q = email_exact('C05', m, n)
            if n == 54:
                q.covers = ['end', 'accepted-literal']
            qs.append(q)
    return qs


def tldtable_query(prefix):
    return Query(prefix + '-tldtable-vs-csv', 'a_tldtable.c', repo=['src/auto_tld.c'], stubs=[], unwind=1600,
                 unwindset={'harness.0': 30}, object_bits=13, covers=['end'], replay=True,
                 bounds={'rows': 'all rows of data/punycode.csv (concrete)'}, functions=['tld_list[] (data)'],
                 note='expected table regenerated from data/punycode.csv on every run (vflib/pre.py)', timeout=1500)


def tld_query(prefix, K, L, twice=False):
    return Query('%s-is_tld-symtable-K%d-L%d%s' % (prefix, K, L, '-twice' if twice else ''), 'a_tld.c', repo=['src/is_tld.c'],
                 defs=D(VF_K=K, VF_L=L) + (['-DVF_TWICE'] if twice else []),
                 unwind=max(K, L) + 3, covers=['end', 'listed', 'unlisted', 'one-char-extension-of-row0'],
                 bounds={'table_rows': K, 'name_len': '1..%d' % L, 'query_len': '0..%d' % (L + 1)},
                 functions=['is_tld'], note='real is_tld.c against a symbolic table; the step to 1591 rows rests on the loop treating rows uniformly',
                 timeout=1500)


def special_query(prefix, N, prefixlen=None, **kw):
    defs = D(VF_N=N) + (D(VF_PREFIXLEN=prefixlen) if prefixlen else [])
    return Query('%s-special-N%d%s' % (prefix, N, '-prefix%d' % prefixlen if prefixlen else ''), 'a_special.c',
                 repo=['src/is_special_domain.c'], defs=defs, unwind=N + 3,
                 covers=['end', 'special-tld-after-label', 'not-special'] + (['special-second-level'] if N >= 11 else []),
                 optional_covers=['special-bare', 'special-second-level'],
                 bounds={'max_len': N, 'domain': 'every valid host name without root dot' + (
                     '; first <=%d bytes: one symbolic fill letter with 3 symbolic dot positions' % prefixlen if prefixlen else '')},
                 functions=['is_special_domain'], **kw)


def special_long_query(prefix, N, prefixlen, memsafe=False, **kw):
    defs = D(VF_N=N, VF_PREFIXLEN=prefixlen) + (['-DVF_MEMSAFE', '-DVF_TAIL_ALIGN'] if memsafe else [])
    return Query('%s-special-%s-N%d-prefix%d' % (prefix, 'memsafe' if memsafe else 'long', N, prefixlen), 'a_special.c',
                 repo=['src/is_special_domain.c'], defs=defs, unwind=N + 3, stubs=['env.c', 'memcpy_loop.c'],
                 unwindset={'is_special_domain.0': 24, 'is_special_domain.3': 24},
                 covers=['end', 'long-input'] if memsafe else ['end', 'special-tld-after-label', 'not-special', 'special-second-level'],
                 bounds={'max_len': N, 'structure': 'first <=%d bytes: one symbolic fill letter with 3 symbolic dot positions; the rest arbitrary' % prefixlen,
                         'domain': 'ANY string (memory safety only)' if memsafe else 'every valid host name without root dot'},
                 functions=['is_special_domain'], solver='cadical', **kw)


def special_shape_query(prefix, p1, p2, sfx, **kw):
    pre = p1 + 1 + (p2 + 1 if p2 else 0)
    N = pre + sfx
    return Query('%s-special-shape-%d.%d+%d' % (prefix, p1, p2, sfx), 'a_special.c', repo=['src/is_special_domain.c'],
                 defs=D(VF_N=N, VF_SHAPE_P1=p1, VF_SHAPE_P2=p2), unwind=N + 3, stubs=['env.c', 'memcpy_loop.c'],
                 unwindset={'is_special_domain.0': sfx + 4, 'is_special_domain.3': sfx + 4},
                 covers=['end', 'special-tld-after-label', 'not-special'],
                 bounds={'leading labels': 'concrete lengths %d%s, made of one symbolic letter' % (p1, ', %d' % p2 if p2 else ''),
                         'suffix': 'arbitrary, <= %d bytes' % sfx, 'domain': 'every valid host name without root dot of this shape'},
                 functions=['is_special_domain'], timeout=3000, weight=40, **kw)


def special_taillab_query(prefix, head, lab, **kw):
    N = head + 1 + lab
    return Query('%s-special-memsafe-taillabel-%d+%d' % (prefix, head, lab), 'a_special.c', repo=['src/is_special_domain.c'],
                 defs=D(VF_N=N, VF_TAILLAB=lab) + ['-DVF_MEMSAFE', '-DVF_TAIL_ALIGN'], unwind=N + 3, stubs=['env.c', 'memcpy_loop.c'],
                 unwindset={'is_special_domain.0': head + 4, 'is_special_domain.3': head + 4}, covers=['end'],
                 bounds={'input': 'ANY %d bytes, then "." and a last label of concrete length %d of one symbolic byte' % (head, lab),
                         'claim': 'memory safety / UB only (no validity assumption on the input)'},
                 functions=['is_special_domain'], timeout=3000, weight=20, **kw)


def c07_queries(tier):
    qs = [tldtable_query('C07'), tld_query('C07', 2, 8, twice=True)] + ([tld_query('C07', 3, 3), tld_query('C07', 2, 63)] if tier == 'quick' else [tld_query('C07', 5, 5), tld_query('C07', 3, 63)])
    N = 20 if tier == 'quick' else 40
    qs += [email_query('C07', m, N, covers=['end', 'tld-class', 'not-fqdn' if m < 3 else 'accepted-hostname', 'special' if m < 3 else 'end'],
                       timeout=3000) for m in range(4)]
    return qs


def c09_queries(tier):
    if tier == 'quick':
        return [special_query('C09', 13, timeout=1500), special_shape_query('C09', 63, 0, 12)]
    return [special_query('C09', 16, timeout=6000), special_shape_query('C09', 63, 0, 12), special_shape_query('C09', 7, 63, 12),
            special_shape_query('C09', 62, 0, 12), special_shape_query('C09', 1, 63, 12), special_shape_query('C09', 63, 7, 12)]


def c11_queries(tier):
    return [tldtable_query('C11'), tld_query('C11', 3, 3), tld_query('C11', 2, 63), tld_query('C11', 2, 8, twice=True)]


def utf8dom_query(prefix, N, M, backend='idn2', **kw):
    return Query('%s-utf8dom-%s-N%d-M%d' % (prefix, backend, N, M), 'b_utf8dom.c',
                 repo=['partial/%s/is_utf8_domain.c' % backend], defs=D(VF_N=N, VF_M=M), unwind=max(N, M) + 2, leak=True,
                 idn=None if backend == 'idn2' else backend,
                 covers=['end', 'fault-with-buffer', 'fault-without-buffer', 'accepted', 'special', 'not-fqdn', 'tld-class'],
                 bounds={'input_len': N, 'converter_output_len': M, 'converter_rc': 'any int (2^32)', 'tld_check': 'both'},
                 functions=['is_utf8_domain'],
                 note='IDN converter = uninterpreted function (K1); is_ascii_domain/is_special_domain/is_tld = recording stubs', **kw)


def utf8dom_long_queries(prefix, backend='idn2'):
    qs = []
    for n in (255, 256, 300):
        q = utf8dom_query(prefix, n, 8, backend)
        q.name = q.name.replace('-N%d-' % n, '-len%d-' % n)
        q.defs.append('-DVF_EXACT_N')
        q.unwind = n + 2
        q.bounds = dict(q.bounds, input_len=n)
        q.covers = ['end', 'accepted', 'tld-class']
        qs.append(q)
    return qs


def c19_queries(tier):
    K = 4 if tier == 'quick' else 6
    N = 8 if tier == 'quick' else 24
    return [utf8dom_query('C19', N, N),
            email_query('C19', 3, 16 if tier == 'quick' else 40, covers=['end', 'idn-error', 'accepted-hostname']),
            single_query('C19'),
            history_query('C19', K, covers_override=None, timeout=3000), inductive_query('C19')]


def c16_queries(tier):
    N = 20 if tier == 'quick' else 40
    qs = [email_query('C16', m, N, timeout=3000) for m in range(4)]
    qs += [email_query('C16extra', m, N, extra_defs=['-DEAV_EXTRA'],
                       covers=['end', 'accepted-hostname', 'accepted-literal', 'extra-literal', 'extra-domain'], timeout=3000) for m in range(4)]
    # the leaf validators never return a positive code (a positive rc would be taken for a TLD class)
    qs += [local_exact('C16', m, n) for m in range(4) for n in (5, 8)]
    return qs


ALL_EMAIL_UNITS = EMAIL_SRC + ['partial/idn2/is_utf8_domain.c', 'src/eav.c']


def pipeline_query(prefix, N, **kw):
    return Query('%s-pipeline-4modes-N%d' % (prefix, N), 'b_pipeline.c', repo=ALL_EMAIL_UNITS, defs=D(VF_N=N, VF_STRNDUP_MAX=N + 2),
                 unwind=N + 4, leak=True, covers=['end', 'idn-rejects-what-ascii-accepts', 'same-class', 'both-accept'],
                 bounds={'max_address_len': N, 'alphabet': '0x01-0x7F', 'tld_check': 'both', 'converter_rc': 'any int'},
                 functions=EMAIL_FN + ['is_utf8_domain'],
                 note='leaf validators: case-insensitive uninterpreted functions of range content; converter: K1+K2', **kw)


def c12_queries(tier):
    lens = list(range(0, 25)) if tier == 'quick' else list(range(0, 49)) + [63, 64, 65, 66]
    qs = cross_family('C12', 2, ['all-accept', 'all-reject'], 'noquote-4modes', lens)
    qs += cross_family('C12', 3, ['accept-quoted', '822-only'], '5321-subset-822', lens, srcs=['src/is_822_local.c', 'src/is_5321_local.c'])
    qs.append(pipeline_query('C12', 9 if tier == 'quick' else 12, timeout=5000))
    qs += [tld_query('C12', 3, 3), tld_query('C12', 2, 8, twice=True), special_query('C12', 11)]   # leaf validators: case-insensitive, stateless
    if tier != 'quick':
        q = pipeline_query('C12', 16, timeout=5000)
        q.defs.append('-DVF_EXACT_N')
        q.name += '-exact'
        q.covers = ['end']
        q.bounds = dict(q.bounds, address_len=16)
        qs.append(q)
    return qs


def c10_queries(tier):
    N = 8 if tier == 'quick' else 24
    return utf8dom_long_queries('C10') + [utf8dom_query('C10', N, N), pipeline_query('C10', 9 if tier == 'quick' else 12, timeout=5000),
            tld_query('C10', 3, 3), special_query('C10', 11 if tier == 'quick' else 13),
            email_query('C10', 3, 16 if tier == 'quick' else 40, covers=['end', 'idn-error', 'accepted-hostname', 'tld-class'])]


def c20_queries(tier):
    lines, ll = (3, 3) if tier == 'quick' else (4, 5)
    qs = [Query('C20-cli-main-%dx%d' % (lines, ll), 'd_cli.c', repo=['bin/utf8_decode.c'], defs=D(VF_D=1, VF_LINES=lines, VF_LL=ll),
                unwind=max(14, ll + 5), leak=True,
                covers=['end', 'all-lines-validated', 'comment-skipped', 'empty-after-trim', 'leading-space-trimmed'],
                bounds={'lines': lines, 'bytes_per_line': ll, 'terminators': 'LF, CRLF, none on the last line', 'alphabet': '0x01-0xFF except LF'},
                functions=['main', 'parse_file'], note='fopen/getline/fclose/fprintf/setlocale and the libeav API are recording stubs; sanitize_utf8 intercepted',
                timeout=3000)]
    for ts, n in ((6, 8),) if tier == 'quick' else ((6, 8), (8, 10), (16, 12)):
        qs.append(Query('C20-sanitize-T%d-N%d' % (ts, n), 'd_cli.c', repo=['bin/utf8_decode.c'],
                        defs=D(VF_D=2, VF_N=n, LIBEAV_VERIF_TEXT_SIZE=ts, VF_TWICE=None), unwind=max(14, n + 4),
                        covers=['end', 'ill-formed-input'] + (['longer-than-buffer', 'buffer-full', 'echo-multibyte'] if ts < 10 else ['echo-multibyte']),
                        bounds={'text_len': n, 'TEXT_SIZE': ts, 'alphabet': '0x01-0xFF'},
                        functions=['sanitize_utf8', 'utf8_decode_init', 'utf8_decode_next', 'utf8_decode_at_byte'],
                        note='static buffer shrunk by the LIBEAV_VERIF hook so that both sides of the limit are reached' if ts < 100 else 'real TEXT_SIZE',
                        timeout=3000))
    return qs


def c17_queries(tier):
    v = lambda k, fl: ('src/is_6531_local.c', ['-Dis_6531_local=is_6531_local__v%d' % k] + fl)
    V0, V1 = v(0, []), v(1, ['-DRFC6531_FOLLOW_RFC20'])
    V2, V3 = v(2, ['-DRFC6531_FOLLOW_RFC5322']), v(3, ['-DRFC6531_FOLLOW_RFC5322', '-DRFC6531_FOLLOW_RFC20'])
    dec = 'src/utf8_decode.c'

    def mk(name, opt, units, covers, n):
        return Query('C17-%s-len%d' % (name, n), 'a_options.c', repo=units, defs=D(VF_N=n, VF_OPT=opt, VF_EXACT_N=None),
                     unwind=n + 5, covers=['end'] + (covers if n >= 5 else []), bounds={'len': n, 'ctx_bytes': 1},
                     functions=['is_6531_local (variants)', 'is_ascii_domain (variants)'], timeout=3000, weight=n)
    L = range(0, 11) if tier == 'quick' else range(0, 17)
    LD = list(range(0, 17)) + [63, 64, 65] if tier == 'quick' else list(range(0, 33)) + [63, 64, 65, 66]
    qs = []
    for n in L:
        qs.append(mk('rfc20', 20, [V0, V1, dec], ['rfc20-rejects', 'rfc20-char-inside-quotes-kept'], n))
        qs.append(mk('rfc5322', 5322, [V2, dec, 'src/is_5322_local.c'], ['accept-quoted-space', 'reject'], n))
        qs.append(mk('rfc20+rfc5322', 2032, [V2, V3, dec], ['rfc20-rejects'], n))
    for n in LD:
        qs.append(mk('underscore', 95, ['src/is_ascii_domain.c', ('src/is_ascii_domain.c', ['-Dis_ascii_domain=is_ascii_domain__us', '-DLABELS_ALLOW_UNDERSCORE'])],
                     ['underscore-accepted'], n))
    return qs


def uninit_query(prefix, backend='idn2'):
    return Query('%s-uninit-eav_t-%s' % (prefix, backend), 'c_uninit.c', repo=['partial/%s/eav.c' % backend, 'src/eav.c'],
                 unwind=CB_UNW, leak=True, idn=None if backend == 'idn2' else backend,
                 instrument=[['--branch', 'vf_branch']], replay=False,
                 covers=['end', 'branches-recorded', 'accepted'],
                 bounds={'eav_t initial bytes': 'two independent arbitrary images', 'settings': 'any int / bool', 'callback rc': 'all documented codes'},
                 functions=API_FN, note='self-composition + goto-instrument --branch: branch traces of the two runs must be equal; '
                                        'not natively replayable (the instrumentation exists only in the goto program)')


def c06_queries(tier):
    qs = []
    T = ['-DVF_TAIL_ALIGN']
    for m in range(4):
        for tail in (0, 1):
            for n in (range(0, 10) if tier == 'quick' else list(range(0, 21)) + [64, 65, 66] if m in (1, 2) else range(0, 17)):
                q = local_exact('C06-%s' % ('tail' if tail else 'head'), m, n, extra=T if tail else [])
                q.covers = ['end']
                q.bounds['object'] = 'terminator is the last byte' if tail else 'first byte is the first byte'
                qs.append(q)
    Nd = 9 if tier == 'quick' else 12
    qs.append(Query('C06-domain-tail-N%d' % Nd, 'a_domain.c', repo=['src/is_ascii_domain.c'], defs=D(VF_N=Nd) + T, unwind=Nd + 3,
                    covers=['end'], bounds={'max_len': Nd, 'object': 'terminator is the last byte'}, functions=['is_ascii_domain'], timeout=3000))
    qs.append(Query('C06-special-tail-N11', 'a_special.c', repo=['src/is_special_domain.c'], defs=D(VF_N=11) + T, unwind=14,
                    covers=['end'], bounds={'max_len': 11, 'object': 'terminator is the last byte'}, functions=['is_special_domain'], timeout=3000))
    for fn, n in ((4, 9), (6, 8), (0, 8)):
        q = ip_query('C06', fn, n, 1, [])
        q.name += '-tail'
        q.defs += T
        q.bounds['object'] = 'terminator is the last byte'
        qs.append(q)
    qs.append(tld_query('C06', 2, 8))
    qs += [special_taillab_query('C06', 4, l) for l in (63, 64, 65)]
    Ne = 14 if tier == 'quick' else 24
    for m in range(4):
        q = email_query('C06tail', m, Ne, extra_defs=T, covers=['end', 'accepted-hostname'])
        q.bounds['object'] = 'terminator is the last byte of the address object'
        qs.append(q)
        qs.append(email_query('C06extra', m, Ne, extra_defs=['-DEAV_EXTRA'], covers=['end', 'extra-domain']))
    qs.append(utf8dom_query('C06', 8, 8))
    qs.append(single_query('C06'))
    qs.append(history_query('C06', 3 if tier == 'quick' else 5, timeout=3000,
                            covers=['end', 'two-validations']))
    qs.append(uninit_query('C06'))
    qs.append(inductive_query('C06'))
    qs.append(tldtable_query('C06'))
    return qs


LEAF_UNITS = ['src/is_822_local.c', 'src/is_5321_local.c', 'src/is_5322_local.c', 'src/is_6531_local.c', 'src/utf8_decode.c',
              'src/is_ascii_domain.c', 'src/is_ipv4_ipv6.c', 'src/is_special_domain.c', 'src/is_tld.c']


def c14_queries(tier):
    N = 4 if tier == 'quick' else 7
    qs = []

    def mk(fn, units, extra, **kw):
        return Query('C14-writeset-%s-N%d' % (fn, N), 'c14_contract.c', repo=units,
                     defs=D(VF_N=N) + ['-D__NO_CTYPE'] + extra, stubs=['env.c', 'ctype_fn.c'], unwind=max(N + 4, 8),
                     unwindset={'strspn.0': 24},
                     instrument=[['--add-library', '--no-malloc-may-fail'], ['--no-malloc-may-fail', '--dfcc', 'harness', '--enforce-contract', fn]], replay=False,
                     covers=['end'], bounds={'max_len': N, 'alphabet': '0x01-0xFF'}, functions=[fn],
                     note='write set enforced by goto-instrument --dfcc against the contract declared in harness/c14_contract.c; '
                          'not natively replayable (instrumentation exists only in the goto program)', timeout=3000, **kw)
    pure = [('is_822_local', ['src/is_822_local.c'], "'@'"), ('is_5321_local', ['src/is_5321_local.c'], "'@'"),
            ('is_5322_local', ['src/is_5322_local.c'], "'@'"), ('is_6531_local', ['src/is_6531_local.c', 'src/utf8_decode.c'], "'@'"),
            ('is_ascii_domain', ['src/is_ascii_domain.c'], '0'), ('is_ipv4', ['src/is_ipv4_ipv6.c'], "']'"),
            ('is_ipv6', ['src/is_ipv4_ipv6.c'], "']'"), ('is_ipaddr', ['src/is_ipv4_ipv6.c'], "']'"),
            ('is_special_domain', ['src/is_special_domain.c'], '0'), ('is_tld', ['src/is_tld.c'], '0')]
    for fn, units, endch in pure:
        extra = D(VF_PURE=fn, VF_ENDCH=endch) + (['-DVF_SMALL_TABLE'] if fn == 'is_tld' else [])
        qs.append(mk(fn, units, extra))
    dom = ['partial/idn2/is_utf8_domain.c', 'src/is_ascii_domain.c', 'src/is_special_domain.c', 'src/is_tld.c']
    qs.append(mk('is_utf8_domain', dom, D(VF_UDOM=None, VF_SMALL_TABLE=None, VF_NEED_CONVERTER=None)))
    allu = LEAF_UNITS + ['partial/idn2/is_utf8_domain.c', 'src/eav.c']
    for m in range(4):
        qs.append(mk(EMAIL_FN[m], [EMAIL_SRC[m]] + allu, D(VF_EMAIL=EMAIL_FN[m], VF_SMALL_TABLE=None, VF_NEED_CONVERTER=None)))
    qs.append(mk('eav_is_email', EMAIL_SRC + allu + ['partial/idn2/eav.c'], D(VF_API=None, VF_SMALL_TABLE=None, VF_NEED_CONVERTER=None)))
    # the address-literal path needs >= 11 bytes: x@[........] skeleton of exactly 12 bytes
    allu_noip = [u for u in allu if u != 'src/is_ipv4_ipv6.c'] + [('src/is_ipv4_ipv6.c', [], ['is_ipaddr', 'is_ipv4', 'is_ipv6'])]
    for m in range(4):
        q = mk(EMAIL_FN[m], [EMAIL_SRC[m]] + allu_noip, D(VF_EMAIL=EMAIL_FN[m], VF_SMALL_TABLE=None, VF_NEED_CONVERTER=None, VF_LIT=None, VF_STUB_IP=None))
        q.name = 'C14-writeset-%s-literal-len12' % EMAIL_FN[m]
        q.defs = [d if not d.startswith('-DVF_N=') else '-DVF_N=12' for d in q.defs]
        q.unwind = 16
        q.bounds = {'address': 'x@[........] skeleton of exactly 12 bytes, other bytes arbitrary', 'address validators': 'uninterpreted verdicts'}
        qs.append(q)
        if tier != 'quick':
            q2 = mk(EMAIL_FN[m], [EMAIL_SRC[m]] + allu, D(VF_EMAIL=EMAIL_FN[m], VF_SMALL_TABLE=None, VF_NEED_CONVERTER=None, VF_LIT=None))
            q2.name = 'C14-writeset-%s-literal-len12-real-callees' % EMAIL_FN[m]
            q2.defs = [d if not d.startswith('-DVF_N=') else '-DVF_N=12' for d in q2.defs]
            q2.unwind = 16
            q2.timeout = 6000
            q2.bounds = {'address': 'x@[........] skeleton of exactly 12 bytes, other bytes arbitrary', 'callees': 'all real'}
            qs.append(q2)
    return qs


def c18_queries(tier):
    K = 4 if tier == 'quick' else 6
    qs = []
    for b in ('idn2', 'idn', 'idnkit'):
        qs.append(single_query('C18', b))
        h = history_query('C18', K, b, timeout=3000)
        if b == 'idnkit':
            h.covers = h.covers + ['context-recreated'] if K >= 5 else h.covers
            h.optional_covers.append('context-recreated')
        qs.append(h)
        qs.append(uninit_query('C18', b))
        qs.append(inductive_query('C18', b))
        qs += utf8dom_long_queries('C18', b)
        u = utf8dom_query('C18', 8, 8, b)
        if b == 'idnkit':
            u.covers = [c for c in u.covers if c != 'fault-with-buffer']
        qs.append(u)
        e = email_query('C18' + b, 3, 16 if tier == 'quick' else 32, covers=['end', 'idn-error', 'accepted-hostname', 'tld-class', 'accepted-literal'])
        e.repo = ['partial/%s/is_6531_email.c' % b, 'src/eav.c']
        e.idn = None if b == 'idn2' else b
        qs.append(e)
    return qs


PROPS = {
    'C18': {
        'queries': c18_queries,
        'level': 'model_checking',
        'outside': ['the real libidn / idnkit (not installed): their API is declared by thin adapter headers (stubs/adapter_idn, stubs/adapter_idnkit) '
                    'and all three backends are driven by the same converter stub'],
        'assumptions': ['adapter contracts: idna_to_ascii_lz as K1; idn_res_encodename writes a NUL-terminated string of < tolen bytes on success; '
                        'idn_resconf_create/destroy allocate/release one context'],
        'explanation': 'the three partial/<backend> source sets pass the same Layer B/C harnesses with the same assertions, which determine every '
                       'output as a function of the stub answers: hence identical decisions; idnkit contexts are heap objects so a double destroy, '
                       'a use after destroy or a missing destroy is a memory-safety/leak failure',
    },
    'C14': {
        'queries': c14_queries, 'pre': pre.c14_pre,
        'level': 'model_checking',
        'outside': ['real thread schedules: decided by a sequential write-set / static-state reduction, not by exploring interleavings '
                    '(CBMC threads were probed and found unsound for this code, see DESIGN.md)',
                    'libidn2 / glibc internals (idn2_strerror gettext state, malloc arenas)'],
        'assumptions': ['meta-argument: code that writes only its own stack, its own eav_t/result objects and fresh heap, and reads besides '
                        'those only const tables and the caller strings, cannot race with or observe another instance'],
    },
    'C06': {
        'queries': c06_queries,
        'level': 'model_checking',
        'outside': ['inputs longer than the per-query bounds (64 KiB inputs, lengths >= 2^31 where utf8_decode_init(int) truncates)',
                    'libidn2 / glibc internals', 'allocation failure (excluded by the property wording)',
                    'the eav CLI is covered by C20'],
        'explanation': 'every harness runs with pointer, bounds, overflow, shift, division and leak checks and unwinding assertions; '
                       'objects are sized so that a read before the first byte (head) or after the terminator (tail) is out of bounds; '
                       'abort()/assert() are failures; loop bounds n+const under --unwinding-assertions give the linear-time claim',
    },
    'C17': {
        'queries': c17_queries, 'pre': pre.c17_pre,
        'level': 'model_checking',
        'outside': ['non-default builds are otherwise not verified against C02-C05', 'strings longer than max_len'],
    },
    'C20': {
        'queries': c20_queries,
        'level': 'model_checking',
        'outside': ['lines containing NUL bytes', 'real stdio; lines longer than the bound (long lines are exercised only through the shrunk buffer)'],
        'assumptions': ['getline contract: returns the record with its terminator in a heap buffer, -1 at EOF',
                        'sprintf modelled for the single format "0x%02x"'],
    },
    'C10': {
        'queries': c10_queries, 'pre': pre.c10_pre,
        'level': 'model_checking',
        'outside': ['libidn2 itself (binary): IDNA2008 mapping/validity, Punycode, rejection of invalid U-labels; modelled by contract K1-K3',
                    'K2/K3 are validated on concrete data against the live libidn2 (pre-checks), not proved'],
        'assumptions': ['K1: converter returns an error code or OK with a NUL-terminated heap string',
                        'K2: on all-ASCII input a successful conversion equals the input up to ASCII case',
                        'K3: U-label and A-label spellings of one name convert to the same string'],
    },
    'C12': {
        'queries': c12_queries,
        'level': 'model_checking',
        'outside': ['local parts longer than 24 / 48 (+63-66) bytes; addresses longer than 9 / 12 (16) bytes in the four-mode product'],
    },
    'C16': {
        'queries': c16_queries,
        'level': 'model_checking',
        'outside': ['addresses longer than max_address_len'],
        'assumptions': ['leaf validators behave as arbitrary functions of their (start,end) range with the documented result range'],
    },
    'C19': {
        'queries': c19_queries,
        'level': 'model_checking',
        'outside': ['runs longer than the stated number of operations (history independence is C13)', 'libidn2 internals'],
        'assumptions': ['converter contract K1: returns an error code, or OK with a NUL-terminated heap string'],
    },
    'C07': {
        'queries': c07_queries, 'pre': pre.c07_pre,
        'level': 'model_checking',
        'outside': ['direct query of the 1591-row table with a symbolic label (no verdict within 1500 s at design time)',
                    'mode 6531 U-label spelling: depends on libidn2 conversion (C10)'],
        'assumptions': ['uniformity argument from a K-row symbolic table to the 1591-row table'],
    },
    'C09': {
        'queries': c09_queries,
        'level': 'model_checking',
        'outside': ['domains longer than 13/16 bytes outside the concrete-shape families (leading labels of the listed lengths)'],
        'assumptions': ['reference ref/ref_domain.h (ref_special) is the reading of the property text'],
    },
    'C11': {
        'queries': c11_queries, 'pre': pre.c11_pre,
        'level': 'translation_validation',
        'outside': ['Text::CSV itself (replaced by a 40-line shim, stubs/perl/Text/CSV.pm, because the module is not installed)'],
        'explanation': 'table side decided by CBMC on the compiled auto_tld.c against the CSV-derived table; generator re-run is a concrete translation-validation side check',
    },
    'C05': {
        'queries': c05_queries,
        'level': 'model_checking',
        'outside': ['full-alphabet literal contents longer than 16/32 bytes, address-alphabet contents longer than 20/22 (maximum textual length is 45)', 'bytes after the end pointer other than "]" (no caller passes them)'],
        'assumptions': ['reference recognisers ref/ref_ip.h: U = RFC 4291 text form, L = RFC 5321 section 4.1.3'],
    },
    'C04': {
        'queries': c04_queries,
        'level': 'model_checking',
        'outside': ['lengths not listed per query (quick: 25-62, 68-239 only through the structured family; thorough: every length to 72 and the listed ones to 256)',
                    'mode 6531: the IDNA conversion itself (libidn2 is a binary); the pipeline around it is C10/C07'],
        'assumptions': ['reference recogniser ref/ref_domain.h is the reading of the property text',
                        'the domain range ends at the terminating NUL (as in every call made by the library)'],
    },
    'C03': {
        'queries': c03_queries,
        'level': 'model_checking',
        'outside': ['6531 local parts longer than 12/20 arbitrary bytes (68 structured ASCII); the decoder itself is covered completely (all windows of 0-4 bytes)',
                    'lengths >= 2^31 (utf8_decode_init takes int)'],
        'assumptions': ['reference recogniser ref/ref_local.h (Unicode Table 3-7 + RFC 5321 grammar) is the reading of the property text'],
    },
    'C08': {
        'queries': c08_queries,
        'level': 'model_checking',
        'outside': ['the idn/idnkit copies of eav.c are covered by C18'],
        'explanation': 'policy layer decided without bound: allow_tld and rfc are unconstrained 32-bit values',
    },
    'C13': {
        'queries': c13_queries,
        'level': 'model_checking',
        'outside': ['histories longer than the stated number of operations'],
    },
    'C15': {
        'queries': c15_queries,
        'level': 'model_checking',
        'outside': [],
    },
    'C01': {
        'queries': c01_queries,
        'level': 'model_checking',
        'outside': ['address lengths other than <= 24/40 and the exact lengths listed per query (65-67 / 64-80); glue check: lengths above 24 / 68, literals above 12 bytes'],
        'assumptions': ['leaf validators behave as arbitrary functions of their (start,end) range with the documented result range'],
    },
    'C02': {
        'queries': c02_queries,
        'level': 'model_checking',
        'outside': ['lengths not listed per query: 5321/5322 beyond 72 bytes, 822 beyond 48 arbitrary bytes (68 structured)'],
        'assumptions': ['reference recogniser ref/ref_local.h is the reading of the property text'],
    },
}


def find_query(name):
    for p, s in PROPS.items():
        for t in ('quick', 'thorough'):
            for q in s['queries'](t):
                if q.name == name:
                    return q
    return None


# ------------------------------------------------------------------ MANIFEST texts
_BMC = ('bounded model checking of the real C translation units with CBMC 6.11 (goto-cc encode, SAT), property as assertions over '
        'symbolic inputs, counterexamples replayed on a gcc+ASan/UBSan build')
_T = {
    'C01': ('For every address of <= 24 (quick) / 40 (thorough) arbitrary bytes, and for every address of exactly 65-67 (quick) / 64-80 (thorough) '
            'arbitrary bytes - both sides of the 64-octet boundary -, in all four modes and both tld_check values, the solver shows that the real is_*_email code splits at the last "@", applies '
            'the 64-octet rule, consults exactly this mode\'s validators on exactly the two halves and returns the documented function of their '
            'answers - for ANY behaviour of the leaf validators (uninterpreted stubs); Layer C shows the mode set before eav_setup is the one applied. '
            'Bounded exhaustive within the stated lengths, which sampling cannot give; what the leaves accept is C02-C05.',
            _BMC + '; leaf validators as recording uninterpreted functions'),
    'C02': ('Equivalence of the three real scanners with a reference grammar written from the property text, for EVERY NUL-free string of every length 0-16 and 63-66 '
            '(quick) / 0-72 (thorough; mode 822: 0-48 plus a 68-byte structured family), followed by 0-2 arbitrary bytes: one solver query per '
            'length, each a verdict over 255^n inputs.',
            _BMC + '; differential harness against a reference recogniser'),
    'C03': ('The decoder is decided completely (all windows of 0-4 bytes, no bound left); the scanner is equivalent to Unicode Table 3-7 + the 5321 '
            'grammar on every string of length 0-12/0-20; 6531 == 5321 (same code) on every pure-ASCII string of length 0-24 / 0-48 and 63-66; a.X.b accepted for every non-ASCII scalar value.',
            _BMC + '; differential harness against a reference recogniser; product program of two scanners'),
    'C04': ('Equivalence with the host-name reference on every string of length 0-24 and 63-67 (quick) / 0-72, 96, 128, 192 and 252-256 (thorough), '
            'underscore build too, plus a structured family '
            'with symbolic total length, symbolic dot positions and arbitrary bytes at symbolic positions: every label length in every position to 72 '
            'bytes and the 253/254 edge (quick), every shape with up to 5 labels to 262 bytes in one query (thorough).',
            _BMC + ' (CaDiCaL for the structured family); differential harness against a reference recogniser'),
    'C05': ('Sandwich RFC 5321 4.1.3 <= accepted <= RFC 4291 for the real is_ipv4 (every string to 16/24 bytes), is_ipv6 (every string to 16 / 24, 28, 32 bytes; to 20/22 over the address alphabet; '
            'nested is_ipv4 replaced by an uninterpreted verdict inside its own proved bounds) and dispatch-only is_ipaddr; bracket handling, tag and '
            'family flag for every address up to 20/40 bytes and of exactly 54, 55 / 50-60 bytes (the longest literal is 52) with uninterpreted address validators.',
            _BMC + '; two-sided reference recognisers; callee body replacement (assume-guarantee)'),
    'C06': ('All pointer, bounds, overflow, shift, division, leak and unwinding obligations CBMC generates for every public entry point, with objects '
            'sized so that a read before the first byte or after the terminator is out of bounds; abort()/assert() reachable = failure; uninitialised '
            'eav_t fields by self-composition over two arbitrary memory images with branch-trace equality.',
            _BMC + '; self-composition with goto-instrument --branch for uninitialised reads'),
    'C07': ('The compiled 1591-row table equals the CSV-derived table (concrete, by CBMC); the real is_tld.c returns the class of the first row equal '
            'to the whole label, case-insensitively, for every symbolic table of 3x3 / 5x5 rows and of 2-3 rows with names up to 63 bytes; the callers '
            'look up exactly the text after the last dot, after the reserved check.',
            _BMC + '; real lookup code against a symbolic table; table equality on concrete data'),
    'C08': ('No bound on the policy layer: allow_tld and rfc are unconstrained 32-bit values, the callback result ranges over every documented code, '
            'the eav_t starts from arbitrary bytes; Layer B shows what is (not) consulted with tld_check off and for literals.',
            _BMC + '; callbacks as uninterpreted functions'),
    'C09': ('Equivalence of the real is_special_domain with the reserved-name reference for every VALID host name without root dot up to 13/16 bytes, '
            'plus families with leading labels of concrete length 63 (62, 7+63, 1+63, 63+63 in the thorough tier) before an arbitrary 12-byte suffix.',
            _BMC + '; differential harness against a reference recogniser'),
    'C10': ('Under the converter contract K1-K3 the solver shows: is_utf8_domain depends on its input only through the converter answer; on every '
            'all-ASCII address up to 9/12 bytes the four real email functions agree unless the converter failed, and then mode 6531 reports exactly '
            'EEAV_IDN_ERROR; leaf validators case-insensitive. libidn2 itself is a binary: K2/K3 are validated on concrete data, not proved.',
            _BMC + '; product program of the four modes; IDN converter as an uninterpreted function under a stated contract'),
    'C11': ('Table side: CBMC proves the compiled src/auto_tld.c equal, row by row, to the table re-derived from data/punycode.csv on every run, and '
            'that lookups return exactly the listed class. Generator side (concrete translation validation, not a solver verdict): the repository\'s '
            'Perl generators are re-run on the shipped CSVs and their output compared with the shipped files.',
            'CBMC on the compiled table vs. a CSV-derived expectation; re-run of the real generators with a Text::CSV stand-in'),
    'C12': ('Product programs: the four real scanners return the same code on every quote-free ASCII string of length 0-24 / 0-48, 63-66; 5321-accept implies '
            '822-accept; the four real email functions on one address up to 9/12 bytes agree (6531 may only differ by an IDN error).',
            _BMC + '; product programs, no reference model needed'),
    'C13': ('Every program of 4/6 operations from the API alphabet with arbitrary settings: after each validation a fresh object with the confirmed '
            'mode and the current settings agrees on return value, error code, message and result fields; nothing leaks after eav_free. '
            'Plus one inductive step from an ARBITRARY eav_t satisfying a written representation invariant (and the base case eav_init): histories of any length.',
            _BMC + '; symbolic operation sequence, comparison with a fresh object; callbacks uninterpreted'),
    'C14': ('Sequential reduction, each step decided: no function-local writable static in any library unit (symbol scan); for 16 entry points a '
            'contract-enforced write set (goto-instrument --dfcc) on every input up to 4/7 bytes: any write to the caller\'s string, a file-scope '
            'object or a foreign object fails. The step from "no shared writes, no shared mutable reads" to "no race under any schedule" is a stated '
            'meta-argument; CBMC\'s own thread model was probed and found unsound for this code.',
            'CBMC dynamic frame condition checking of assigns-contracts on the real code + static-state symbol scan'),
    'C15': ('ret==1 iff errcode==0, errcode==-rc, message table, IDN message and invalid-RFC handling without bound (Layer C) and inside histories; '
            'for every input of length 0-10 / 0-18 (local) and 0-16, 64, 65 / 0-40, 64-66, 128, 254, 255 (domain), whenever a validator returns code c the condition c names holds of the input.',
            _BMC + '; per-code necessary conditions asserted on the real validators'),
    'C16': ('Flag and result-code consistency and, with -DEAV_EXTRA, byte-exact lpart/domain for every address up to 20/40 bytes in all four modes, '
            'for any leaf behaviour.', _BMC + '; leaf validators as recording uninterpreted functions'),
    'C17': ('All option variants of the two affected units linked into one product harness under renamed symbols: each option changes exactly what it '
            'documents on every string of length 0-10 / 0-16 (local) and 0-16 / 0-32, 63-65 (domain); lexical side checks show no other unit can change.',
            _BMC + '; product program over build variants; lexical pre-checks'),
    'C18': ('The idn2, idn and idnkit source sets pass the same Layer B/C harnesses (same assertions, same converter stub) - hence identical decisions; '
            'idnkit contexts are heap objects so leak / double destroy / use after destroy are memory failures, over every history of 4/6 operations.',
            _BMC + '; the three backends against thin adapter headers and one converter stub'),
    'C19': ('The converter returns any of the 2^32 codes with or without an output buffer: rejection with EEAV_IDN_ERROR, code and library message '
            'reported, no validator consulted, no leak or double free; faults at symbolic positions in histories of 4/6 operations.',
            _BMC + '; fault injection as an unconstrained return value of the converter stub'),
    'C20': ('main/parse_file on every file of 3x3 / 4x5 lines x bytes with LF, CRLF or a missing final newline: one verdict per non-comment line, the '
            'library sees exactly the trimmed line; the real sanitize_utf8 on every text up to 8/10 bytes against a buffer shrunk by the hook.',
            _BMC + '; stdio and the libeav API as recording stubs'),
}
for _k, (_c, _t) in _T.items():
    if _k in PROPS:
        PROPS[_k]['claim'] = _c
        PROPS[_k]['technique'] = _t
