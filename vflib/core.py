"""vf core: encode (goto-cc) -> solve (cbmc) -> extract -> replay (gcc build of the
same tree) -> evidence.  Everything is regenerated from /repo's current working
tree on every run; nothing is cached across runs."""
import json, os, re, shutil, subprocess, sys, time, hashlib, resource, signal
from concurrent.futures import ThreadPoolExecutor, as_completed

VERIF = os.path.dirname(os.path.dirname(os.path.abspath(__file__)))
REPO = os.environ.get('VF_REPO', '/repo')
GUARD = 'LIBEAV_VERIF'
BASE_DEFS = ['-D_DEFAULT_SOURCE', '-D_XOPEN_SOURCE=700', '-D_SVID_SOURCE', '-DHAVE_LIBIDN2',
             '-D' + GUARD]
CHECK_FLAGS = ['--unwinding-assertions', '--pointer-overflow-check', '--signed-overflow-check',
               '--undefined-shift-check', '--div-by-zero-check',
               '--no-malloc-may-fail', '--drop-unused-functions']


class Query:
    """One solver query: real repo units + harness (+ cbmc-only environment stubs)."""

    def __init__(self, name, harness, repo=(), defs=(), stubs=('env.c',), entry='harness',
                 unwind=None, unwindset=None, flags=(), timeout=600, mem_gb=10, replay=True,
                 covers=(), optional_covers=(), bounds=None, functions=(), note='',
                 instrument=None, leak=False, object_bits=None, idn=None, include_dirs=(),
                 expect_fail=(), solver=None, weight=1):
        self.name = name
        self.harness = harness              # file under /verif/harness
        self.repo = list(repo)              # [(relpath, [extra defs])] or relpath
        self.defs = list(defs)              # -D for harness and repo units
        self.stubs = list(stubs)            # files under /verif/stubs, cbmc side only
        self.entry = entry
        self.unwind = unwind
        self.unwindset = dict(unwindset or {})
        self.flags = list(flags)
        self.timeout = timeout
        self.mem_gb = mem_gb
        self.replay = replay
        self.covers = list(covers)          # cover labels that MUST be reachable
        self.optional_covers = list(optional_covers)
        self.bounds = bounds or {}
        self.functions = list(functions)
        self.note = note
        self.instrument = instrument        # list of goto-instrument arg lists
        self.leak = leak
        self.object_bits = object_bits
        self.idn = idn                      # None: system idn2.h ; 'idn'/'idnkit': adapter headers
        self.include_dirs = list(include_dirs)
        self.expect_fail = list(expect_fail)
        self.solver = solver
        self.weight = weight


class Result:
    def __init__(self, q):
        self.q = q
        self.status = 'ERROR'    # PASS / FAIL / INCONCLUSIVE / ERROR / VACUOUS
        self.detail = ''
        self.props_total = 0
        self.props_failed = []   # [(property id, description, trace)]
        self.covers_hit = {}
        self.covers_missed = []
        self.vccs = 0
        self.vccs_remaining = 0
        self.steps = 0
        self.sat_vars = 0
        self.sat_clauses = 0
        self.wall = 0.0
        self.solver_s = 0.0
        self.rss_mb = 0
        self.samples = []
        self.violations = []     # replay-confirmed: [(path, summary)]
        self.unconfirmed = []
        self.cover_replayed = 0
        self.cmd = ''


ACTIVE = set()
LAST_RSS_KB = {}


def kill_active(*_a):
    for p in list(ACTIVE):
        try:
            p.terminate()
        except Exception:
            pass


def sh(cmd, cwd=None, timeout=None, mem_gb=None, out=None, err=None):
    """run a child (no shell); returns (rc, text, wall). rc -9 on timeout. Peak RSS in LAST_RSS_KB[pid]."""
    def lim():
        if mem_gb:
            b = int(mem_gb * (1 << 30))
            resource.setrlimit(resource.RLIMIT_AS, (b, b))
    t0 = time.time()
    fo = open(out, 'wb') if out else subprocess.PIPE
    fe = open(err, 'wb') if err else subprocess.STDOUT
    p = subprocess.Popen(cmd, cwd=cwd, stdout=fo, stderr=fe, preexec_fn=lim)
    ACTIVE.add(p)
    try:
        try:
            o, _ = p.communicate(timeout=timeout)
            rc = p.returncode
        except subprocess.TimeoutExpired:
            p.terminate()
            try:
                o, _ = p.communicate(timeout=5)
            except subprocess.TimeoutExpired:
                p.kill()
                o, _ = p.communicate()
            rc = -9
    finally:
        ACTIVE.discard(p)
    if out:
        fo.close()
    if err:
        fe.close()
    return rc, (o or b'').decode('utf-8', 'replace'), time.time() - t0


def repo_units(q):
    out = []
    for r in q.repo:
        if isinstance(r, str):
            out.append((r, [], []))
        else:
            out.append((r[0], list(r[1]), list(r[2]) if len(r) > 2 else []))
    return out


def inc_flags(q):
    inc = ['-I' + os.path.join(VERIF, 'harness'), '-I' + os.path.join(VERIF, 'ref'),
           '-I' + os.path.join(VERIF, 'build')]
    if q.idn:
        inc.append('-I' + os.path.join(VERIF, 'stubs', 'adapter_' + q.idn))
    inc += ['-I' + REPO + '/include', '-I' + REPO, '-I' + REPO + '/src', '-I' + REPO + '/bin']
    inc += ['-I' + d for d in q.include_dirs]
    return inc


def base_defs(q):
    d = list(BASE_DEFS)
    if q.idn == 'idn':
        d = [x for x in d if x != '-DHAVE_LIBIDN2'] + ['-DHAVE_LIBIDN']
    elif q.idn == 'idnkit':
        d = [x for x in d if x != '-DHAVE_LIBIDN2'] + ['-DHAVE_IDNKIT']
    return d


def build_goto(q, wd):
    objs = []
    inc = inc_flags(q)
    bd = base_defs(q)
    n = 0
    for rel, extra, rm in repo_units(q):
        n += 1
        o = os.path.join(wd, 'u%d.gb' % n)
        cmd = ['goto-cc', '-c', os.path.join(REPO, rel), '-o', o] + inc + bd + q.defs + extra
        rc, txt, _ = sh(cmd, timeout=120)
        if rc != 0:
            return None, 'goto-cc failed on %s:\n%s' % (rel, txt[-2000:])
        for fn in rm:      # the harness supplies a stub for this function of the unit
            o2 = os.path.join(wd, 'u%d_%s.gb' % (n, fn))
            rc, txt, _ = sh(['goto-instrument', '--remove-function-body', fn, o, o2], timeout=120)
            if rc != 0:
                return None, 'remove-function-body %s failed:\n%s' % (fn, txt[-2000:])
            o = o2
        objs.append(o)
    o = os.path.join(wd, 'h.gb')
    cmd = ['goto-cc', '-c', os.path.join(VERIF, 'harness', q.harness), '-o', o] + inc + bd + q.defs
    rc, txt, _ = sh(cmd, timeout=120)
    if rc != 0:
        return None, 'goto-cc failed on harness %s:\n%s' % (q.harness, txt[-3000:])
    objs.append(o)
    for s in q.stubs:
        n += 1
        o = os.path.join(wd, 's%d.gb' % n)
        cmd = ['goto-cc', '-c', os.path.join(VERIF, 'stubs', s), '-o', o] + inc + bd + q.defs
        rc, txt, _ = sh(cmd, timeout=120)
        if rc != 0:
            return None, 'goto-cc failed on stub %s:\n%s' % (s, txt[-2000:])
        objs.append(o)
    out = os.path.join(wd, 'q.gb')
    rc, txt, _ = sh(['goto-cc', '-o', out, '--function', q.entry] + objs, timeout=120)
    if rc != 0:
        return None, 'goto-cc link failed:\n%s' % txt[-3000:]
    if q.instrument:
        cur = out
        k = 0
        for args in q.instrument:
            k += 1
            nxt = os.path.join(wd, 'q_i%d.gb' % k)
            rc, txt, _ = sh(['goto-instrument'] + list(args) + [cur, nxt], timeout=600, mem_gb=q.mem_gb)
            if rc != 0:
                return None, 'goto-instrument %s failed:\n%s' % (' '.join(args), txt[-3000:])
            cur = nxt
        out = cur
    return out, ''


def cbmc_cmd(q, gb):
    cmd = ['cbmc', gb]
    if not q.instrument or not any('--dfcc' in a for a in q.instrument):
        cmd += ['--function', q.entry]
    cmd += CHECK_FLAGS
    if q.leak:
        cmd.append('--memory-leak-check')
    if q.unwind is not None:
        cmd += ['--unwind', str(q.unwind)]
    if q.unwindset:
        cmd += ['--unwindset', ','.join('%s:%d' % kv for kv in sorted(q.unwindset.items()))]
    if q.object_bits:
        cmd += ['--object-bits', str(q.object_bits)]
    if q.solver:
        cmd += ['--sat-solver', q.solver]
    cmd += q.flags
    cmd += ['--trace', '--json-ui', '--verbosity', '8']
    return cmd


def parse_trace_inputs(trace):
    """The nondet draws of the trace, in execution order: [(type, value-int)]."""
    seq = []
    for s in trace:
        if s.get('stepType') != 'assignment' or s.get('hidden'):
            continue
        lhs = s.get('lhs', '')
        m = re.match(r'^vf_draw_([a-z_]+)$', lhs)
        if not m:
            continue
        v = s.get('value', {})
        b = v.get('binary')
        if b is None:
            d = v.get('data')
            if d in ('TRUE', 'FALSE'):
                val = 1 if d == 'TRUE' else 0
            else:
                try:
                    val = int(re.sub(r'[a-zA-Z]+$', '', str(d)))
                except Exception:
                    val = 0
        else:
            val = int(b, 2)
        seq.append((m.group(1), val))
    return seq


def run_cbmc(q, gb, wd):
    r = Result(q)
    cmd = cbmc_cmd(q, gb)
    r.cmd = ' '.join(cmd).replace(wd, '$WD')
    outp = os.path.join(wd, 'cbmc.json')
    tmo = q.timeout
    if os.environ.get('VF_MAX_TIMEOUT'):
        tmo = min(tmo, int(os.environ['VF_MAX_TIMEOUT']))
    rc, _, wall = sh(['/usr/bin/env', 'VF_RSS_FILE=' + os.path.join(wd, 'rss.txt'), sys.executable,
                      os.path.join(VERIF, 'vflib', 'rsswrap.py')] + cmd, timeout=tmo,
                     mem_gb=q.mem_gb, out=outp, err=os.path.join(wd, 'cbmc.err'))
    r.wall = wall
    try:
        r.rss_mb = int(open(os.path.join(wd, 'rss.txt')).read().strip()) // 1024
    except Exception:
        pass
    if rc == -9:
        r.status = 'INCONCLUSIVE'
        r.detail = 'timeout after %ds' % tmo
        return r
    try:
        data = json.load(open(outp, errors='replace'))
    except Exception as e:
        r.status = 'INCONCLUSIVE'
        tail = ''
        try:
            tail = open(outp, errors='replace').read()[-600:]
        except Exception:
            pass
        r.detail = 'cbmc output unparsable (rc=%d, likely memory cap %sG): %s %s' % (rc, q.mem_gb, e, tail)
        return r
    results = None
    status = None
    msgs = []
    nobody = []
    for e in data:
        if 'result' in e:
            results = e['result']
        elif 'cProverStatus' in e:
            status = e['cProverStatus']
        elif 'messageText' in e:
            t = e['messageText']
            msgs.append(t)
            m = re.search(r'no body for (?:function|callee) (\S+)', t)
            if m and not m.group(1).startswith('nondet_'):
                nobody.append(m.group(1))
            m = re.search(r'Generated (\d+) VCC\(s\), (\d+) remaining', t)
            if m:
                r.vccs, r.vccs_remaining = int(m.group(1)), int(m.group(2))
            m = re.search(r'size of program expression: (\d+) steps', t)
            if m:
                r.steps = int(m.group(1))
            m = re.search(r'(\d+) variables, (\d+) clauses', t)
            if m:
                r.sat_vars = max(r.sat_vars, int(m.group(1)))
                r.sat_clauses = max(r.sat_clauses, int(m.group(2)))
            m = re.search(r'Runtime decision procedure: ([\d.]+)s', t)
            if m:
                r.solver_s += float(m.group(1))
    if nobody:
        r.status = 'ERROR'
        r.detail = 'functions without a body or model (would be havocked): ' + ', '.join(sorted(set(nobody)))
        return r
    if results is None:
        r.status = 'ERROR'
        r.detail = 'no result block (rc=%d): %s' % (rc, ' | '.join(msgs[-6:])[-1500:])
        return r
    r.props_total = len(results)
    wanted = set(q.covers)
    maybe_missed = []
    known_covers = set(q.covers) | set(q.optional_covers)
    for p in results:
        desc = p.get('description', '')
        st = p.get('status')
        if desc.startswith('VF_COVER:'):
            lab = desc[len('VF_COVER:'):]
            if st == 'FAILURE':
                seq = parse_trace_inputs(p.get('trace', []))
                r.covers_hit[lab] = seq
            elif lab in wanted:
                maybe_missed.append(lab)
        else:
            if st == 'FAILURE':
                r.props_failed.append((p.get('property'), desc, parse_trace_inputs(p.get('trace', []))))
            elif st not in ('SUCCESS',):
                r.props_failed.append((p.get('property'), desc + ' [status %s]' % st, []))
    for lab in list(wanted) + maybe_missed:      # a label may occur at several places: missed only if no instance was hit
        if lab not in r.covers_hit and lab not in r.covers_missed:
            r.covers_missed.append(lab)
    nb = sorted(set((pid or '').split('.no-body.')[-1] for pid, d, _ in r.props_failed if '.no-body.' in (pid or '')))
    if nb:
        r.status = 'ERROR'
        r.detail = 'functions without a body or model (CBMC would havoc them): ' + ', '.join(nb)
        r.props_failed = []
        return r
    definite = [x for x in r.props_failed if '[status ' not in x[1]]
    if r.props_failed and not definite:
        r.status = 'INCONCLUSIVE'
        r.detail = 'solver gave no verdict (memory cap %sG or solver error): %s' % (q.mem_gb, ' | '.join(msgs[-3:])[-300:])
        r.props_failed = []
    elif definite:
        r.props_failed = definite      # undecided properties after a definite failure are not reported
        r.status = 'FAIL'
    elif r.props_failed:
        r.status = 'FAIL'
    elif r.covers_missed:
        r.status = 'VACUOUS'
        r.detail = 'cover goals unreachable: ' + ', '.join(r.covers_missed)
    else:
        r.status = 'PASS'
    return r


# ---------------------------------------------------------------- native replay

def build_native(q, wd, sanitize=True):
    """gcc build of the same working tree + the same harness (no environment stubs)."""
    exe = os.path.join(wd, 'replay.bin')
    inc = inc_flags(q)
    bd = base_defs(q)
    san = ['-fsanitize=address,undefined', '-fno-sanitize-recover=undefined'] if sanitize else []
    objs = []
    n = 0
    for rel, extra, rm in repo_units(q):
        n += 1
        o = os.path.join(wd, 'n%d.o' % n)
        cmd = ['gcc', '-O0', '-g', '-w', '-fPIC', '-c', os.path.join(REPO, rel), '-o', o] + san + inc + bd + q.defs + extra
        rc, txt, _ = sh(cmd, timeout=120)
        if rc != 0:
            return None, txt[-2000:]
        for fn in rm:
            rc, txt, _ = sh(['objcopy', '--weaken-symbol=' + fn, o], timeout=60)
            if rc != 0:
                return None, txt[-2000:]
        objs.append(o)
    o = os.path.join(wd, 'nh.o')
    cmd = ['gcc', '-O0', '-g', '-w', '-DVF_NATIVE', '-c', os.path.join(VERIF, 'harness', q.harness), '-o', o] + san + inc + bd + q.defs
    rc, txt, _ = sh(cmd, timeout=120)
    if rc != 0:
        return None, txt[-3000:]
    objs.append(o)
    o = os.path.join(wd, 'nm.o')
    cmd = ['gcc', '-O0', '-g', '-w', '-DVF_NATIVE', '-c', os.path.join(VERIF, 'harness', 'vf_native.c'), '-o', o] + san + inc
    rc, txt, _ = sh(cmd, timeout=120)
    if rc != 0:
        return None, txt[-3000:]
    objs.append(o)
    rc, txt, _ = sh(['gcc', '-o', exe] + san + objs, timeout=120)
    if rc != 0:
        return None, txt[-3000:]
    return exe, ''


def write_replay_file(path, q, kind, desc, seq):
    os.makedirs(os.path.dirname(path), exist_ok=True)
    with open(path, 'w') as f:
        json.dump({'query': q.name, 'harness': q.harness, 'defs': q.defs, 'kind': kind,
                   'property': desc, 'nondet': [[t, v] for t, v in seq]}, f, indent=1)


def run_native(exe, seq, wd, tag):
    inp = os.path.join(wd, 'in_%s.txt' % tag)
    with open(inp, 'w') as f:
        for t, v in seq:
            f.write('%s %d\n' % (t, v))
    env = dict(os.environ)
    env['ASAN_OPTIONS'] = 'detect_leaks=1:abort_on_error=0:exitcode=99'
    env['LSAN_OPTIONS'] = 'exitcode=97'
    env['UBSAN_OPTIONS'] = 'print_stacktrace=0:halt_on_error=1:exitcode=98'
    p = subprocess.run([exe, inp], stdout=subprocess.PIPE, stderr=subprocess.STDOUT, timeout=60, env=env)
    return p.returncode, p.stdout.decode('utf-8', 'replace')


def describe_inputs(seq, limit=48):
    """Readable rendering of a nondet sequence: bytes as a C-like string."""
    out = []
    run = bytearray()

    def flush():
        if run:
            out.append('"' + ''.join(chr(b) if 32 <= b < 127 and b not in (34, 92) else '\\x%02x' % b for b in run) + '"')
            run.clear()
    for t, v in seq[:limit]:
        if t in ('uchar', 'char'):
            run.append(v & 0xFF)
        else:
            flush()
            if t == 'int' and v >= 1 << 31:
                v -= 1 << 32
            out.append('%s=%d' % (t, v))
    flush()
    if len(seq) > limit:
        out.append('...')
    return ' '.join(out)


def execute(q, prop_id, workroot, replay_dir):
    wd = os.path.join(workroot, re.sub(r'[^\w.-]', '_', q.name))
    os.makedirs(wd, exist_ok=True)
    t0 = time.time()
    gb, err = build_goto(q, wd)
    if gb is None:
        r = Result(q)
        r.status = 'ERROR'
        r.detail = err
        return r
    r = run_cbmc(q, gb, wd)
    # A failed unwinding assertion means "bound too small for this loop", not a property failure: retry with larger
    # bounds (code under test may contain constant-bounded loops, e.g. a search in a table of specials).
    tries = 0
    q_eff = q
    while (r.status == 'FAIL' and r.props_failed and tries < 3 and
           all(('.unwind.' in (pid or '')) or d.startswith('unwinding assertion') for pid, d, _ in r.props_failed)):
        tries += 1
        import copy
        q_eff = copy.copy(q_eff)
        q_eff.unwind = max(int((q_eff.unwind or 8) * 2), 40)
        q_eff.unwindset = {k: max(v * 2, 40) for k, v in q_eff.unwindset.items()}
        r2 = run_cbmc(q_eff, gb, wd)
        r2.detail = (r2.detail + ' [unwinding bound raised to %d after an unwinding assertion failed]' % q_eff.unwind).strip()
        r2.wall += r.wall
        r = r2
    only_unwind = (r.status == 'FAIL' and r.props_failed and
                   all(('.unwind.' in (pid or '')) or d.startswith('unwinding assertion') for pid, d, _ in r.props_failed))
    # replay: failures (violations) and cover samples (encoding validation)
    need_native = q.replay and (r.props_failed or r.covers_hit)
    exe = None
    if need_native:
        exe, nerr = build_native(q, wd)
        if exe is None:
            r.detail += ' native build failed: ' + nerr
    if r.props_failed:
        seen = set()
        for pid, desc, seq in r.props_failed:
            key = json.dumps(seq)
            h = hashlib.sha1((q.name + key).encode()).hexdigest()[:12]
            path = os.path.join(replay_dir, prop_id, '%s-%s.json' % (re.sub(r'[^\w.-]', '_', q.name), h))
            summary = '%s: %s  inputs: %s' % (pid, desc, describe_inputs(seq))
            if key in seen:
                continue
            seen.add(key)
            write_replay_file(path, q, 'violation', '%s: %s' % (pid, desc), seq)
            if exe and q.replay:
                try:
                    rc, out = run_native(exe, seq, wd, h)
                except subprocess.TimeoutExpired:
                    rc, out = 1, 'ASSERT-FAIL: native run did not terminate within 60 s (non-termination)'
                if only_unwind and rc == 0:
                    # terminates natively: the loop is bounded, only our unwinding bound was too small even after retries
                    r.status = 'INCONCLUSIVE'
                    r.detail = 'unwinding bound too small even after retries (loop terminates natively): ' + summary[:200]
                    continue
                if rc in (1, 97, 98, 99) or rc < 0 or 'ASSERT-FAIL' in out or 'AddressSanitizer' in out or 'LeakSanitizer' in out or 'runtime error' in out:
                    r.violations.append((path, summary, out[-400:]))
                else:
                    r.unconfirmed.append((path, summary, 'native rc=%d: %s' % (rc, out[-300:])))
            elif not q.replay and only_unwind:
                r.status = 'INCONCLUSIVE'
                r.detail = 'unwinding bound too small even after retries: ' + summary[:200]
            elif not q.replay:
                # harness-level property with no native counterpart (e.g. contract instrumentation)
                r.violations.append((path, summary, 'not natively replayable: %s' % q.note))
            else:
                r.unconfirmed.append((path, summary, 'no native build'))
    if exe and r.covers_hit:
        for lab, seq in sorted(r.covers_hit.items()):
            try:
                rc, out = run_native(exe, seq, wd, 'c_' + re.sub(r'\W', '_', lab))
            except Exception as e:
                rc, out = -1, str(e)
            ok = (rc == 0 and ('COVER-HIT:' + lab) in out and 'ASSERT-FAIL' not in out)
            r.samples.append({'query': q.name, 'cover': lab, 'inputs': describe_inputs(seq),
                              'native_replay': 'consistent' if ok else 'MISMATCH rc=%d %s' % (rc, out[-200:])})
            if ok:
                r.cover_replayed += 1
            elif r.status == 'PASS':
                r.status = 'ERROR'
                r.detail = 'cover sample %s does not replay natively (encoding/stub mismatch): rc=%d %s' % (lab, rc, out[-300:])
    elif r.covers_hit:
        for lab, seq in sorted(r.covers_hit.items()):
            r.samples.append({'query': q.name, 'cover': lab, 'inputs': describe_inputs(seq),
                              'native_replay': 'not replayable'})
    r.total_wall = time.time() - t0
    if r.status == 'PASS' or os.environ.get('VF_KEEP') is None:
        shutil.rmtree(wd, ignore_errors=True)
    return r


def run_queries(prop_id, queries, tier, jobs=None):
    pid = os.getpid()
    workroot = os.path.join(VERIF, '.work', '%s-%d' % (prop_id, pid))
    replay_sub = 'replays' if REPO == '/repo' else 'replays/mutants'
    os.makedirs(workroot, exist_ok=True)
    replay_dir = os.path.join(VERIF, replay_sub)
    jobs = jobs or int(os.environ.get('VF_JOBS', '0')) or min(16, os.cpu_count() or 4)
    results = []
    try:
        with ThreadPoolExecutor(max_workers=jobs) as ex:
            futs = {ex.submit(execute, q, prop_id, workroot, replay_dir): q
                    for q in sorted(queries, key=lambda x: -x.weight)}
            for f in as_completed(futs):
                q = futs[f]
                try:
                    r = f.result()
                except Exception as e:
                    r = Result(q)
                    r.status = 'ERROR'
                    r.detail = 'driver exception: %r' % (e,)
                results.append(r)
                sys.stderr.write('[%s] %-40s %-12s %6.1fs %5dMB %s\n' % (
                    prop_id, q.name, r.status, r.wall, r.rss_mb, r.detail[:300].replace('\n', ' ')))
                sys.stderr.flush()
    finally:
        if os.environ.get('VF_KEEP') is None:
            shutil.rmtree(workroot, ignore_errors=True)
            try:
                os.rmdir(os.path.join(VERIF, '.work'))
            except OSError:
                pass
    results.sort(key=lambda r: r.q.name)
    return results
