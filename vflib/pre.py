"""Non-solver side checks and encoders that regenerate inputs of harnesses from the tree."""
import csv, os, re, shutil, subprocess, tempfile
from . import core

TYPES = {'generic': 'TLD_TYPE_GENERIC', 'country-code': 'TLD_TYPE_COUNTRY_CODE',
         'generic-restricted': 'TLD_TYPE_GENERIC_RESTRICTED', 'infrastructure': 'TLD_TYPE_INFRASTRUCTURE',
         'test': 'TLD_TYPE_TEST', 'sponsored': 'TLD_TYPE_SPONSORED'}


def csv_rows():
    """(domain, class-name) per row of data/punycode.csv by the generator's documented rule."""
    rows = []
    with open(os.path.join(core.REPO, 'data/punycode.csv'), newline='', encoding='utf-8') as f:
        rd = csv.reader(f)
        next(rd)
        for r in rd:
            if not r:
                continue
            dom, typ, mgr = r[0], r[1], r[2]
            if re.match(r'^Not assigned', mgr, re.I):
                t = 'TLD_TYPE_NOT_ASSIGNED'
            elif re.match(r'^Retired', mgr, re.I):
                t = 'TLD_TYPE_RETIRED'
            else:
                t = TYPES[typ]
            rows.append((dom, t))
    return rows


def gen_tld_expect():
    """build/tld_expect.h: the expected table, regenerated from the CSV of the current tree."""
    rows = csv_rows()
    out = ['/* generated from data/punycode.csv by vflib/pre.py on every run */',
           '#define VF_ROWS %d' % len(rows),
           'static const char *const want_dom[VF_ROWS] = {']
    out += ['    "%s",' % d.replace('\\', '\\\\').replace('"', '\\"') for d, _ in rows]
    out += ['};', 'static const int want_type[VF_ROWS] = {']
    out += ['    %s,' % t for _, t in rows]
    out += ['};', '']
    d = os.path.join(core.VERIF, 'build')
    os.makedirs(d, exist_ok=True)
    tmp = os.path.join(d, 'tld_expect.h.%d' % os.getpid())
    open(tmp, 'w').write('\n'.join(out))
    os.replace(tmp, os.path.join(d, 'tld_expect.h'))
    return rows


C11_STATS = {}


def c11_pre(tier):
    res = []
    rows = gen_tld_expect()
    C11_STATS.clear()
    C11_STATS.update({'programs': 3, 'csv_rows': len(rows), 'lines_compared': 0})
    names = [d for d, _ in rows]
    dup = sorted(set(n for n in names if names.count(n) > 1)) if len(set(names)) != len(names) else []
    res.append(('csv-no-duplicate-domain', not dup, 'duplicates: %s' % dup[:5] if dup else '%d rows, all distinct' % len(rows)))
    unsorted = [(a, b) for a, b in zip(names, names[1:]) if not a.encode() < b.encode()]
    res.append(('csv-strictly-sorted', not unsorted, 'rows out of order: %s' % unsorted[:3] if unsorted else
                'rows in strictly ascending byte order (the symbolic-table query assumes the same of its rows)'))
    bad = [n for n in names if n != n.lower() or not re.match(r'^[a-z0-9-]+$', n)]
    res.append(('csv-lowercase-a-labels', not bad, 'not lower-case LDH: %s' % bad[:5] if bad else 'all rows lower-case LDH A-labels'))
    # re-run the repository's generators (Perl) on the shipped CSVs; Text::CSV is replaced by stubs/perl/Text/CSV.pm
    w = tempfile.mkdtemp(prefix='vf-gen-', dir='/var/tmp')
    try:
        for sub in ('util', 'data'):
            shutil.copytree(os.path.join(core.REPO, sub), os.path.join(w, sub))
        os.makedirs(os.path.join(w, 'include/eav'))
        os.makedirs(os.path.join(w, 'src'))
        inc = '-I' + os.path.join(core.VERIF, 'stubs/perl')
        # several hash seeds: the output must not depend on Perl's hash iteration order
        hdrs = set()
        for seed in ('0', '1', '2', '3', '4', '5'):
            env = dict(os.environ, PERL_HASH_SEED=seed)
            p = subprocess.run(['perl', inc, 'util/gentld.pl', 'include/eav/auto_tld.h', 'src/auto_tld.c', 'data/punycode.csv'],
                               cwd=w, stdout=subprocess.PIPE, stderr=subprocess.STDOUT, env=env)
            if p.returncode != 0:
                break
            hdrs.add(open(os.path.join(w, 'include/eav/auto_tld.h')).read() + '\0' +
                     ''.join(open(os.path.join(w, 'src/auto_tld.c')).read().splitlines(True)[1:]))
        res.append(('rerun-gentld-deterministic', p.returncode == 0 and len(hdrs) == 1,
                    'generator output identical under 6 Perl hash seeds' if len(hdrs) == 1 else 'generator output depends on the Perl hash seed (%d variants)' % len(hdrs)))
        if p.returncode != 0:
            res.append(('rerun-gentld', False, 'generator failed: ' + p.stdout.decode()[-300:]))
        else:
            def cmpf(gen, shipped, skip_first):
                a = open(os.path.join(w, gen), encoding='utf-8').read().splitlines()
                b = open(os.path.join(core.REPO, shipped), encoding='utf-8').read().splitlines()
                if skip_first:
                    a, b = a[1:], b[1:]
                C11_STATS['lines_compared'] += max(len(a), len(b))
                if a == b:
                    return True, '%d lines identical' % len(a)
                for i, (x, y) in enumerate(zip(a, b)):
                    if x != y:
                        return False, 'line %d differs: generated %r, shipped %r' % (i + 1 + skip_first, x, y)
                return False, 'line counts differ: generated %d, shipped %d' % (len(a), len(b))
            ok, d = cmpf('src/auto_tld.c', 'src/auto_tld.c', 1)
            res.append(('rerun-gentld-table', ok, d + ' (timestamp line aside)'))
            ok, d = cmpf('include/eav/auto_tld.h', 'include/eav/auto_tld.h', 0)
            res.append(('rerun-gentld-header', ok, d))
        p = subprocess.run(['perl', inc, 'util/gen_utf8_pass_test.pl', 'tld-domains.out', 'data/raw.csv'],
                           cwd=w, stdout=subprocess.PIPE, stderr=subprocess.STDOUT)
        if p.returncode != 0:
            res.append(('rerun-gen_utf8_pass_test', False, 'generator failed: ' + p.stdout.decode()[-300:]))
        else:
            a = open(os.path.join(w, 'tld-domains.out'), encoding='utf-8').read()
            b = open(os.path.join(core.REPO, 'data/tld-domains.txt'), encoding='utf-8').read()
            res.append(('rerun-gen_utf8_pass_test', a == b, 'data/tld-domains.txt %s' % ('identical' if a == b else 'differs')))
        # raw.csv and punycode.csv name the same TLD set, row by row (U-label -> A-label via python's idna codec is not used:
        # only the row count and the ASCII rows are compared)
        with open(os.path.join(core.REPO, 'data/raw.csv'), newline='', encoding='utf-8') as f:
            rd = list(csv.reader(f))[1:]
        ok = len(rd) == len(rows) and all(r[0] == n for r, n in zip(rd, names) if r[0].isascii())
        res.append(('raw-vs-punycode-rows', ok, '%d raw rows, %d punycode rows, ASCII rows equal in order: %s' % (len(rd), len(rows), ok)))
    finally:
        shutil.rmtree(w, ignore_errors=True)
    return res


def c07_pre(tier):
    gen_tld_expect()
    return []


def c10_pre(tier):
    """Validation (not proof) of the converter contract K2/K3 against the live libidn2, concrete:
    K2: on all-ASCII input a successful conversion returns the input up to ASCII case;
    K3: the U-label and A-label spellings of one TLD convert to the same string."""
    import ctypes
    res = []
    try:
        lib = ctypes.CDLL('libidn2.so.0')
    except OSError as e:
        return [('libidn2-available', False, str(e))]
    lib.idn2_to_ascii_8z.argtypes = [ctypes.c_char_p, ctypes.POINTER(ctypes.c_void_p), ctypes.c_int]
    lib.idn2_to_ascii_8z.restype = ctypes.c_int
    libc = ctypes.CDLL('libc.so.6')
    libc.free.argtypes = [ctypes.c_void_p]

    def conv(b):
        out = ctypes.c_void_p()
        rc = lib.idn2_to_ascii_8z(b, ctypes.byref(out), 8)   # IDN2_NONTRANSITIONAL
        s = None
        if rc == 0 and out.value:
            s = ctypes.string_at(out.value)
        if out.value:
            libc.free(out.value)
        return rc, s
    with open(os.path.join(core.REPO, 'data/raw.csv'), newline='', encoding='utf-8') as f:
        raw = [r[0] for r in list(csv.reader(f))[1:] if r]
    puny = [d for d, _ in csv_rows()]
    bad3, n3 = [], 0
    for u, a in zip(raw, puny):
        if a.startswith('xn--'):
            n3 += 1
            ru, su = conv(u.encode('utf-8'))
            ra, sa = conv(a.encode('ascii'))
            if not (ru == 0 and ra == 0 and su == sa == a.encode('ascii')):
                bad3.append((u, a, ru, ra))
    res.append(('K3-ulabel-alabel-same-conversion', not bad3 and n3 > 0,
                '%d IDN TLD rows: U-label and A-label both convert to the A-label%s' % (n3, '' if not bad3 else '; failures: %r' % bad3[:3])))
    # K2 on ASCII domains: every ASCII TLD row as a two-label domain in three case patterns + domains of the data files
    doms = set()
    for a in puny:
        if not a.startswith('xn--'):
            doms.update(['mail.' + a, ('Mail.' + a).upper(), 'a-b.' + a.capitalize()])
    for fn in ('pass-email-ascii.txt', 'fail-email-ascii.txt', 'email-result-check.txt', 'domain-length.txt', 'xn-dash-domains.txt'):
        try:
            for line in open(os.path.join(core.REPO, 'data', fn), 'rb'):
                line = line.strip()
                d = line.rsplit(b'@', 1)[-1]
                if d and all(32 < c < 127 for c in d) and not d.startswith(b'['):
                    doms.add(d.decode('ascii'))
        except OSError:
            pass
    bad2, ok2 = [], 0
    for d in sorted(doms):
        rc, s = conv(d.encode('ascii'))
        if rc == 0:
            ok2 += 1
            if s.lower() != d.encode('ascii').lower():
                bad2.append((d, s))
    res.append(('K2-ascii-conversion-is-identity-up-to-case', not bad2 and ok2 > 0,
                '%d ASCII domains converted OK, all equal to the input up to ASCII case%s' % (ok2, '' if not bad2 else '; failures: %r' % bad2[:3])))
    return res


OPTS = ['RFC6531_FOLLOW_RFC5322', 'RFC6531_FOLLOW_RFC20', 'LABELS_ALLOW_UNDERSCORE']


def c17_pre(tier):
    """Lexical facts (not solver questions): the three macros occur only in their two units, every other
    unit preprocesses to identical text under all 8 flag sets, and the Makefile defaults are OFF."""
    import glob, itertools, hashlib
    res = []
    R = core.REPO
    users = {}
    for f in glob.glob(R + '/src/*.c') + glob.glob(R + '/partial/*/*.c') + glob.glob(R + '/include/*.h') + \
            glob.glob(R + '/include/eav/*.h') + glob.glob(R + '/bin/*.[ch]') + glob.glob(R + '/src/*.h'):
        txt = open(f, errors='replace').read()
        for o in OPTS:
            if o in txt:
                users.setdefault(o, set()).add(os.path.relpath(f, R))
    want = {'RFC6531_FOLLOW_RFC5322': {'src/is_6531_local.c'}, 'RFC6531_FOLLOW_RFC20': {'src/is_6531_local.c'},
            'LABELS_ALLOW_UNDERSCORE': {'src/is_ascii_domain.c'}}
    ok = all(users.get(o, set()) == want[o] for o in OPTS)
    res.append(('options-used-only-in-their-units', ok, '; '.join('%s: %s' % (o, sorted(users.get(o, []))) for o in OPTS)))
    base = ['gcc', '-E', '-P', '-I' + R + '/include', '-I' + R, '-D_DEFAULT_SOURCE', '-D_XOPEN_SOURCE=700', '-D_SVID_SOURCE', '-DHAVE_LIBIDN2']
    diffs = []
    units = sorted(glob.glob(R + '/src/*.c') + glob.glob(R + '/partial/idn2/*.c'))
    for u in units:
        rel = os.path.relpath(u, R)
        if rel in ('src/is_6531_local.c', 'src/is_ascii_domain.c'):
            continue
        hs = set()
        for k in range(4):       # 4 representative flag sets incl. all-on (text cannot depend on a macro it never mentions)
            flags = [['-D' + o for o in OPTS][i] for i in range(3) if (0b000, 0b111, 0b101, 0b010)[k] >> i & 1]
            p = subprocess.run(base + flags + [u], stdout=subprocess.PIPE, stderr=subprocess.DEVNULL)
            hs.add(hashlib.sha1(p.stdout).hexdigest())
        if len(hs) != 1:
            diffs.append(rel)
    res.append(('other-units-identical-under-all-options', not diffs, 'units whose preprocessed text changes: %s' % diffs if diffs else '%d other units preprocess identically' % (len(units) - 2)))
    mk = open(R + '/Makefile').read()
    offs = [o for o in OPTS if re.search(r'ifndef %s\s*\nexport %s = OFF' % (o, o), mk) and
            re.search(r'ifeq \(\$\(%s\),ON\)\s*\nCPPFLAGS \+= -D%s' % (o, o), mk)]
    res.append(('makefile-defaults-off', len(offs) == 3, 'options defaulting to OFF and enabled only by =ON: %s' % offs))
    return res


def c14_pre(tier):
    """S1: static-lifetime mutable objects defined by the library units (symbol scan of a gcc -c build)."""
    import glob
    res = []
    R = core.REPO
    w = tempfile.mkdtemp(prefix='vf-nm-', dir='/var/tmp')
    found = []
    try:
        units = sorted(glob.glob(R + '/src/*.c') + glob.glob(R + '/partial/idn2/*.c'))
        for u in units:
            o = os.path.join(w, 'u.o')
            p = subprocess.run(['gcc', '-O0', '-c', u, '-o', o, '-I' + R + '/include', '-I' + R, '-D_DEFAULT_SOURCE',
                                '-D_XOPEN_SOURCE=700', '-D_SVID_SOURCE', '-DHAVE_LIBIDN2', '-w', '-fno-pic', '-fno-pie'], stdout=subprocess.PIPE, stderr=subprocess.STDOUT)
            if p.returncode != 0:
                res.append(('compile-' + os.path.basename(u), False, p.stdout.decode()[-300:]))
                continue
            nm = subprocess.run(['nm', o], stdout=subprocess.PIPE).stdout.decode()
            for line in nm.splitlines():
                parts = line.split()
                if len(parts) >= 3 and parts[1] in 'bBdDcCsSgG':
                    found.append('%s:%s(%s)' % (os.path.relpath(u, R), parts[2], parts[1]))
        local = [f for f in found if re.search(r'\.\d+\(', f)]
        filescope = [f for f in found if f not in local]
        res.append(('S1-no-function-local-mutable-static', not local,
                    'function-local writable statics (shared by all threads, invisible to the contract check): %s' % local if local else
                    '%d library units define no function-local writable static' % len(units)))
        res.append(('S1-file-scope-writable-objects-listed', True,
                    'file-scope writable objects (any write to them is refuted by the S2 contract queries): %s' % (filescope or 'none')))
    finally:
        shutil.rmtree(w, ignore_errors=True)
    return res
