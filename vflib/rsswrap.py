"""exec a command as a child, forward termination, record its peak RSS (KB) in $VF_RSS_FILE."""
import os, sys, signal, subprocess, resource
def pdeath():
    try:
        import ctypes
        ctypes.CDLL('libc.so.6').prctl(1, signal.SIGKILL)   # PR_SET_PDEATHSIG: die with the wrapper
    except Exception:
        pass
p = subprocess.Popen(sys.argv[1:], preexec_fn=pdeath)
def fwd(sig, frm):
    try:
        p.kill()
    except Exception:
        pass
signal.signal(signal.SIGTERM, fwd)
signal.signal(signal.SIGINT, fwd)
rc = p.wait()
try:
    open(os.environ['VF_RSS_FILE'], 'w').write(str(resource.getrusage(resource.RUSAGE_CHILDREN).ru_maxrss))
except Exception:
    pass
sys.exit(rc if rc >= 0 else 128 - rc)
