/* Reference recognisers for address literals (C05): a sandwich L <= accepted <= U.
 *  U4: four decimal octets 0-255 (any number of digits) separated by single dots
 *  L4: octets of 1-3 digits <= 255, first octet non-zero
 *  U6: RFC 4291 text form: 8 groups of 1-4 hex digits, or fewer with exactly one "::",
 *      optional dotted-quad tail (U4) standing for the last two groups
 *  L6: RFC 5321 4.1.3 IPv6-full / IPv6-comp / IPv6v4-full / IPv6v4-comp, tail in L4 */
#ifndef REF_IP_H
#define REF_IP_H

static int ref_isdigit(unsigned c) { return c >= '0' && c <= '9'; }
static int ref_ishex(unsigned c) { return ref_isdigit(c) || (c >= 'a' && c <= 'f') || (c >= 'A' && c <= 'F'); }

/* strict != 0: L4, else U4 */
static int ref_v4(const unsigned char *s, unsigned n, int strict)
{
    unsigned i, octets = 0, digits = 0, val = 0, first = 0;
    for (i = 0; i < n; i++) {
        unsigned c = s[i];
        if (ref_isdigit(c)) {
            if (digits == 0) octets++;
            digits++;
            val = val * 10 + (c - '0');
            if (val > 255) return 0;
            if (strict && digits > 3) return 0;
        } else if (c == '.') {
            if (digits == 0) return 0;
            if (octets == 1) first = val;
            digits = 0; val = 0;
        } else
            return 0;
    }
    if (digits == 0 || octets != 4) return 0;
    if (strict && first == 0) return 0;
    return 1;
}

/* recursive-descent formulation (used to cross-check the single-pass one below) */
static int ref_v6_rd(const unsigned char *s, unsigned n, int strict)
{
    unsigned i = 0, groups = 0, dc = 0, v4 = 0;
    if (n >= 2 && s[0] == ':' && s[1] == ':') { dc = 1; i = 2; }
    else if (n == 0 || s[0] == ':') return 0;
    while (i < n) {
        unsigned j = i;
        while (j < n && ref_ishex(s[j])) j++;
        if (j < n && s[j] == '.') {                 /* dotted-quad tail up to the end */
            if (!ref_v4(s + i, n - i, strict)) return 0;
            v4 = 1; i = n;
            break;
        }
        if (j - i < 1 || j - i > 4) return 0;
        groups++;
        i = j;
        if (i == n) break;
        if (s[i] != ':') return 0;
        i++;
        if (i < n && s[i] == ':') {
            if (dc) return 0;
            dc = 1; i++;
        } else if (i == n)
            return 0;                               /* single trailing colon */
    }
    if (!strict) {
        unsigned total = groups + (v4 ? 2 : 0);
        return dc ? total <= 7 : total == 8;
    }
    if (v4) return dc ? groups <= 4 : groups == 6;
    return dc ? groups <= 6 : groups == 8;
}

/* single-pass formulation of the same language (linear formula size, for the long structured family) */
static int ref_v6(const unsigned char *s, unsigned n, int strict)
{
    unsigned i, glen = 0, gdec = 1, gval = 0, groups = 0, dc = 0;
    unsigned in_v4 = 0, done = 0, digits = 0, val = 0, first = 0;
    if (n == 0) return 0;
    for (i = 0; i < n; i++) {
        unsigned c = s[i];
        if (in_v4) {
            if (ref_isdigit(c)) {
                digits++;
                val = val * 10 + (c - '0');
                if (val > 255) return 0;
                if (strict && digits > 3) return 0;
            } else if (c == '.') {
                if (digits == 0) return 0;
                done++; digits = 0; val = 0;
            } else
                return 0;
        } else if (ref_ishex(c)) {
            glen++;
            if (!ref_isdigit(c)) gdec = 0;
            else if (gval <= 255) gval = gval * 10 + (c - '0');
        } else if (c == ':') {
            if (i > 0 && s[i - 1] == ':') {            /* second colon of "::" */
                if (dc) return 0;
                if (i >= 2 && s[i - 2] == ':') return 0;
                dc = 1;
            } else if (i == 0) {
                if (!(n >= 2 && s[1] == ':')) return 0;   /* a leading colon must start "::" */
            } else {
                if (glen < 1 || glen > 4) return 0;     /* closes a group */
                groups++; glen = 0; gdec = 1; gval = 0;
            }
        } else if (c == '.') {
            if (glen == 0 || !gdec || gval > 255) return 0;
            if (strict && glen > 3) return 0;
            first = gval; in_v4 = 1; done = 1; digits = 0; val = 0;
        } else
            return 0;
    }
    if (in_v4) {
        if (digits == 0 || done != 3) return 0;
        if (strict && first == 0) return 0;
    } else if (s[n - 1] == ':') {
        if (!(n >= 2 && s[n - 2] == ':')) return 0;       /* single trailing colon */
    } else {
        if (glen < 1 || glen > 4) return 0;
        groups++;
    }
    if (!strict) {
        unsigned total = groups + (in_v4 ? 2 : 0);
        return dc ? total <= 7 : total == 8;
    }
    if (in_v4) return dc ? groups <= 4 : groups == 6;
    return dc ? groups <= 6 : groups == 8;
}
#endif
