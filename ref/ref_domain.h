/* Reference recognisers for host names and reserved names, from the property text (C04, C09). */
#ifndef REF_DOMAIN_H
#define REF_DOMAIN_H

static int ref_ld(unsigned c, int underscore)
{
    return (c >= 'a' && c <= 'z') || (c >= 'A' && c <= 'Z') || (c >= '0' && c <= '9') || (underscore && c == '_');
}

/* one or more labels separated by single dots, optional single root dot, label = 1..63 LDH with
 * interior hyphens only, at most 253 characters not counting the root dot, not all digits and dots */
static int ref_domain(const unsigned char *s, unsigned n, int underscore)
{
    unsigned m = n, i, lab = 0;
    int non_numeric = 0;
    if (n == 0) return 0;
    if (n >= 2 && s[n - 1] == '.') m = n - 1;
    if (m > 253) return 0;
    for (i = 0; i < m; i++) {
        unsigned c = s[i];
        if (c == '.') {
            if (lab == 0) return 0;              /* empty label / doubled dot / leading dot */
            lab = 0;
        } else if (c == '-') {
            if (lab == 0) return 0;              /* leading hyphen */
            if (i + 1 == m || s[i + 1] == '.') return 0;   /* trailing hyphen */
            lab++;
            non_numeric = 1;
        } else if (ref_ld(c, underscore)) {
            lab++;
            if (!(c >= '0' && c <= '9')) non_numeric = 1;
        } else
            return 0;
        if (lab > 63) return 0;
    }
    if (lab == 0) return 0;                      /* ends with a dot before the (optional) root dot */
    return non_numeric;
}

static int ref_ci_eq(const unsigned char *s, unsigned n, const char *lit)
{
    unsigned i;
    for (i = 0; i < n; i++) {
        unsigned c = s[i];
        if (lit[i] == 0) return 0;
        if (c >= 'A' && c <= 'Z') c += 32;
        if (c != (unsigned char) lit[i]) return 0;
    }
    return lit[n] == 0;
}

/* reserved (RFC 2606/6761/7686): last label in {test, example, invalid, localhost, onion} or the
 * last two labels are example.{com,net,org}; whole labels, ASCII case-insensitive.  s has no root dot. */
static int ref_reserved(const unsigned char *s, unsigned n)
{
    int last = -1, prev = -1;   /* index of the last dot and of the dot before it */
    unsigned i;
    for (i = 0; i < n; i++)
        if (s[i] == '.') { prev = last; last = (int) i; }
    const unsigned char *l1 = s + (last + 1);
    unsigned n1 = n - (unsigned) (last + 1);
    if (ref_ci_eq(l1, n1, "test") || ref_ci_eq(l1, n1, "example") || ref_ci_eq(l1, n1, "invalid") ||
        ref_ci_eq(l1, n1, "localhost") || ref_ci_eq(l1, n1, "onion"))
        return 1;
    if (last >= 0) {
        const unsigned char *l2 = s + (prev + 1);
        unsigned n2 = (unsigned) (last - (prev + 1));
        if (ref_ci_eq(l2, n2, "example") &&
            (ref_ci_eq(l1, n1, "com") || ref_ci_eq(l1, n1, "net") || ref_ci_eq(l1, n1, "org")))
            return 1;
    }
    return 0;
}
#endif
