/* Reference recognisers for local parts, written from the property text (C02, C03),
 * not from the code.  Plain C: compiled by goto-cc and by gcc (replay). */
#ifndef REF_LOCAL_H
#define REF_LOCAL_H

enum { RM_822 = 0, RM_5321 = 1, RM_5322 = 2, RM_6531 = 3 };

static int ref_special(unsigned c)
{
    return c == '(' || c == ')' || c == '<' || c == '>' || c == '@' || c == ',' || c == ';' ||
           c == ':' || c == '\\' || c == '"' || c == '.' || c == '[' || c == ']';
}

/* atom character: printable ASCII other than space and the specials;
 * in mode 6531 every non-ASCII byte of a well-formed string is one more atom character */
static int ref_atext(int mode, unsigned c)
{
    if (c >= 0x80)
        return mode == RM_6531;
    return c >= 0x21 && c <= 0x7e && !ref_special(c);
}

static int ref_ws(unsigned c)
{
    return c == ' ' || c == '\t' || c == '\r' || c == '\n';
}

/* Unicode Table 3-7: length of the well-formed sequence at s[i..n), 0 if ill-formed */
static unsigned ref_utf8_len(const unsigned char *s, unsigned i, unsigned n)
{
    unsigned c = s[i];
    if (c < 0x80) return 1;
    if (c >= 0xC2 && c <= 0xDF)
        return (i + 1 < n && s[i + 1] >= 0x80 && s[i + 1] <= 0xBF) ? 2 : 0;
    if (c >= 0xE0 && c <= 0xEF) {
        unsigned lo = 0x80, hi = 0xBF;
        if (c == 0xE0) lo = 0xA0;
        if (c == 0xED) hi = 0x9F;
        return (i + 2 < n && s[i + 1] >= lo && s[i + 1] <= hi && s[i + 2] >= 0x80 && s[i + 2] <= 0xBF) ? 3 : 0;
    }
    if (c >= 0xF0 && c <= 0xF4) {
        unsigned lo = 0x80, hi = 0xBF;
        if (c == 0xF0) lo = 0x90;
        if (c == 0xF4) hi = 0x8F;
        return (i + 3 < n && s[i + 1] >= lo && s[i + 1] <= hi && s[i + 2] >= 0x80 && s[i + 2] <= 0xBF &&
                s[i + 3] >= 0x80 && s[i + 3] <= 0xBF) ? 4 : 0;
    }
    return 0;
}

static int ref_utf8_wellformed(const unsigned char *s, unsigned n)
{
    unsigned i = 0;
    while (i < n) {
        unsigned l = ref_utf8_len(s, i, n);
        if (l == 0) return 0;
        i += l;
    }
    return 1;
}

/* local-part = word *("." word) ; word = atom / quoted-string  (recursive-descent formulation,
 * kept to cross-check the single-pass one below: harness/ref_selfcheck.c) */
static int ref_local_rd(int mode, const unsigned char *s, unsigned n)
{
    unsigned i = 0;
    if (mode == RM_6531 && !ref_utf8_wellformed(s, n))
        return 0;
    for (;;) {
        if (i >= n)
            return 0;                       /* empty local part or empty word */
        if (s[i] == '"') {
            i++;
            for (;;) {
                unsigned c;
                if (i >= n) return 0;       /* unbalanced quote */
                c = s[i];
                if (c == '"') { i++; break; }
                if (c == '\\') {
                    unsigned e;
                    if (i + 1 >= n) return 0;
                    e = s[i + 1];
                    if (mode == RM_5321 || mode == RM_6531) {
                        if (e < 0x20 || e > 0x7e) return 0;   /* printable ASCII only */
                    } else {
                        if (e >= 0x80) return 0;              /* any ASCII */
                    }
                    i += 2;
                    continue;
                }
                if (c >= 0x80) {
                    if (mode != RM_6531) return 0;
                    i++;
                    continue;
                }
                if (mode == RM_5321 || mode == RM_6531) {
                    if (c < 0x20 || c == 0x7f) return 0;      /* no control character anywhere */
                    i++;
                } else if (mode == RM_822) {
                    if (c == '\r') {                          /* only as CR LF (SP|HT) */
                        if (!(i + 2 < n && s[i + 1] == '\n' && (s[i + 2] == ' ' || s[i + 2] == '\t')))
                            return 0;
                        i += 3;
                    } else
                        i++;
                } else { /* 5322 */
                    if (ref_ws(c)) {                          /* only next to a DQUOTE or whitespace */
                        int ok = (s[i - 1] == '"' || ref_ws(s[i - 1])) ||
                                 (i + 1 < n && (s[i + 1] == '"' || ref_ws(s[i + 1])));
                        if (!ok) return 0;
                    }
                    i++;
                }
            }
        } else {
            if (!ref_atext(mode, s[i])) return 0;
            while (i < n && ref_atext(mode, s[i])) i++;
        }
        if (i == n) return 1;
        if (s[i] != '.') return 0;          /* a word is followed only by a dot or the end */
        i++;
    }
}

/* the same language as one pass over the bytes (formula size linear in n: used by every harness) */
static int ref_local(int mode, const unsigned char *s, unsigned n)
{
    enum { WORD_START, ATOM, QUOTED, AFTER_QUOTE } st = WORD_START;
    unsigned i, skip = 0;
    int esc = 0;
    if (mode == RM_6531 && !ref_utf8_wellformed(s, n))
        return 0;
    for (i = 0; i < n; i++) {
        unsigned c = s[i];
        if (skip) { skip--; continue; }            /* LF and SP/HT of an RFC 822 fold, already checked */
        if (st == WORD_START) {
            if (c == '"') st = QUOTED;
            else if (ref_atext(mode, c)) st = ATOM;
            else return 0;
        } else if (st == ATOM) {
            if (c == '.') st = WORD_START;
            else if (!ref_atext(mode, c)) return 0;
        } else if (st == AFTER_QUOTE) {
            if (c == '.') st = WORD_START;         /* a word is followed only by a dot or the end */
            else return 0;
        } else if (esc) {
            if (mode == RM_5321 || mode == RM_6531) { if (c < 0x20 || c > 0x7e) return 0; }
            else if (c >= 0x80) return 0;
            esc = 0;
        } else if (c == '"') st = AFTER_QUOTE;
        else if (c == '\\') esc = 1;
        else if (c >= 0x80) { if (mode != RM_6531) return 0; }
        else if (mode == RM_5321 || mode == RM_6531) { if (c < 0x20 || c == 0x7f) return 0; }
        else if (mode == RM_822) {
            if (c == '\r') {
                if (!(i + 2 < n && s[i + 1] == '\n' && (s[i + 2] == ' ' || s[i + 2] == '\t'))) return 0;
                skip = 2;
            }
        } else if (ref_ws(c)) {
            int ok = (s[i - 1] == '"' || ref_ws(s[i - 1])) || (i + 1 < n && (s[i + 1] == '"' || ref_ws(s[i + 1])));
            if (!ok) return 0;
        }
    }
    return st == ATOM || st == AFTER_QUOTE;
}

#endif
