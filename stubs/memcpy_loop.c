/* byte-loop memcpy: CBMC's array-level model explodes in memory when the length is symbolic
 * (here: memcpy (label, cp, len) in is_special_domain on long inputs) */
#include <stddef.h>
void *memcpy(void *dst, const void *src, size_t n)
{
    unsigned char *d = dst;
    const unsigned char *s = src;
    for (size_t i = 0; i < n; i++)
        d[i] = s[i];
    return dst;
}
