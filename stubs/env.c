/* CBMC-side environment models (part of every claim, listed in evidence):
 *  - __ctype_b_loc: glibc's ctype macros index a locale table; the table is the one
 *    dumped from the live libc in the C locale (build/ctype_table.h);
 *  - strspn, memchr-free byte loops: CBMC 6.11 ships no strspn model. */
#include <stddef.h>
#include "ctype_table.h"

static const unsigned short *vf_ctype_ptr = vf_ctype_b + 128;
const unsigned short **__ctype_b_loc(void)
{
    return &vf_ctype_ptr;
}

size_t strspn(const char *s, const char *accept)
{
    size_t n = 0;
    for (;; n++) {
        const char *a = accept;
        char c = s[n];
        if (c == 0)
            return n;
        for (; *a != 0 && *a != c; a++);
        if (*a == 0)
            return n;
    }
}

void abort(void)
{
    __CPROVER_assert(0, "abort() reached");
    __CPROVER_assume(0);
}

void __assert_fail(const char *a, const char *f, unsigned l, const char *fn)
{
    __CPROVER_assert(0, "libc assert() failed");
    __CPROVER_assume(0);
}

void *memchr(const void *s, int c, size_t n)
{
    const unsigned char *p = s;
    for (size_t i = 0; i < n; i++)
        if (p[i] == (unsigned char) c)
            return (void *) (p + i);
    return 0;
}

/* strndup: CBMC 6.11 ships no model.  The copy lives in a heap object of VF_STRNDUP_MAX bytes
 * (a constant >= the harness bound + 1) instead of exactly len+1: a symbolic allocation size
 * costs gigabytes, and the library never reads the copies back. */
#ifndef VF_STRNDUP_MAX
#define VF_STRNDUP_MAX 96
#endif
void *malloc(size_t);
char *strndup(const char *s, size_t n)
{
    size_t len = 0;
    while (len < n && s[len] != 0)
        len++;
    __CPROVER_assert(len < VF_STRNDUP_MAX, "harness: strndup model buffer large enough");
    char *p = malloc(VF_STRNDUP_MAX);
    __CPROVER_assume(p != 0);
    for (size_t i = 0; i < VF_STRNDUP_MAX; i++)
        p[i] = (i < len) ? s[i] : 0;
    return p;
}

/* further <string.h> functions CBMC 6.11 has no model for (a refactoring may start using them) */
size_t strcspn(const char *s, const char *reject)
{
    size_t n = 0;
    for (;; n++) {
        const char *r = reject;
        char c = s[n];
        if (c == 0)
            return n;
        for (; *r != 0 && *r != c; r++);
        if (*r != 0)
            return n;
    }
}

char *strpbrk(const char *s, const char *accept)
{
    size_t n = strcspn(s, accept);
    return s[n] != 0 ? (char *) (s + n) : 0;
}

size_t strnlen(const char *s, size_t maxlen)
{
    size_t n = 0;
    while (n < maxlen && s[n] != 0)
        n++;
    return n;
}

void *memrchr(const void *s, int c, size_t n)
{
    const unsigned char *p = s;
    while (n > 0) {
        n--;
        if (p[n] == (unsigned char) c)
            return (void *) (p + n);
    }
    return 0;
}
