/* Thin adapter for libidn's <idna.h> (not installed in this image): just the API that
 * partial/idn/*.c uses.  The functions are supplied by the harnesses (one converter stub). */
#ifndef VF_ADAPTER_IDNA_H
#define VF_ADAPTER_IDNA_H
typedef enum {
    IDNA_SUCCESS = 0, IDNA_STRINGPREP_ERROR = 1, IDNA_PUNYCODE_ERROR = 2, IDNA_CONTAINS_NON_LDH = 3,
    IDNA_CONTAINS_MINUS = 4, IDNA_INVALID_LENGTH = 5, IDNA_NO_ACE_PREFIX = 6, IDNA_ROUNDTRIP_VERIFY_ERROR = 7,
    IDNA_CONTAINS_ACE_PREFIX = 8, IDNA_ICONV_ERROR = 9, IDNA_MALLOC_ERROR = 201, IDNA_DLOPEN_ERROR = 202
} Idna_rc;
extern int idna_to_ascii_lz(const char *input, char **output, int flags);
extern const char *idna_strerror(Idna_rc rc);
#endif
