/* ctype as pure functions (C locale), for harnesses compiled with -D__NO_CTYPE
 * (contract-instrumented programs, where the table stub's static pointer is not initialised) */
int isascii(int c) { return (c & ~0x7f) == 0; }
int isdigit(int c) { return c >= '0' && c <= '9'; }
int isalpha(int c) { return (c >= 'a' && c <= 'z') || (c >= 'A' && c <= 'Z'); }
int isalnum(int c) { return isdigit(c) || isalpha(c); }
int iscntrl(int c) { return (c >= 0 && c < 0x20) || c == 0x7f; }
int isspace(int c) { return c == ' ' || (c >= '\t' && c <= '\r'); }
int isupper(int c) { return c >= 'A' && c <= 'Z'; }
int islower(int c) { return c >= 'a' && c <= 'z'; }
int tolower(int c) { return isupper(c) ? c + 32 : c; }
int toupper(int c) { return islower(c) ? c - 32 : c; }
