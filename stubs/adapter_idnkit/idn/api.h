/* Thin adapter for idnkit's <idn/api.h> (not installed in this image): just the API that
 * partial/idnkit/*.c and include/eav.h use.  The functions are supplied by the harnesses. */
#ifndef VF_ADAPTER_IDN_API_H
#define VF_ADAPTER_IDN_API_H
#include <stddef.h>
typedef int idn_result_t;
enum { idn_success = 0, idn_notfound = 1, idn_invalid_encoding = 2, idn_buffer_overflow = 4, idn_nomemory = 10, idn_failure = 28 };
struct vf_idn_resconf { int live; int serial; };
typedef struct vf_idn_resconf *idn_resconf_t;
typedef int idn_action_t;
#define IDN_ENCODE_REGIST 0x1f
extern idn_result_t idn_resconf_initialize(void);
extern idn_result_t idn_resconf_create(idn_resconf_t *ctxp);
extern void idn_resconf_destroy(idn_resconf_t ctx);
extern idn_result_t idn_res_encodename(idn_resconf_t ctx, idn_action_t actions, const char *from, char *to, size_t tolen);
extern const char *idn_result_tostring(idn_result_t r);
#endif
