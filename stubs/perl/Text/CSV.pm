package Text::CSV;
# Minimal stand-in for Text::CSV (not installed in this image, nothing can be fetched):
# just what util/gentld.pl and util/gen_utf8_pass_test.pl use - new, getline, error_diag -
# for RFC 4180 records (quoted or bare fields, "" as an escaped quote, one record per line).
use strict;
use warnings;

sub new { my ($class, $opt) = @_; return bless { %{ $opt || {} } }, $class; }
sub error_diag { return "csv shim error"; }

sub getline {
    my ($self, $io) = @_;
    my $line = <$io>;
    return undef unless defined $line;
    $line =~ s/\r?\n\z//;
    my @f;
    my $i = 0;
    my $n = length $line;
    while ($i <= $n) {
        my $field = '';
        if ($i < $n && substr($line, $i, 1) eq '"') {
            $i++;
            while (1) {
                die "csv shim: unterminated quote" if $i >= $n;
                my $c = substr($line, $i, 1);
                if ($c eq '"') {
                    if ($i + 1 < $n && substr($line, $i + 1, 1) eq '"') { $field .= '"'; $i += 2; next; }
                    $i++; last;
                }
                $field .= $c; $i++;
            }
        } else {
            while ($i < $n && substr($line, $i, 1) ne ',') { $field .= substr($line, $i, 1); $i++; }
        }
        push @f, $field;
        last if $i >= $n;
        die "csv shim: expected comma" unless substr($line, $i, 1) eq ',';
        $i++;
    }
    return \@f;
}
1;
