/* Native probe/replayer: calls the real public API of a gcc build of the tree.
 * usage: eavprobe api   <rfc:int> <tld_check:0|1> <allow_tld:int> <hex-address>
 *        eavprobe local <mode:822|5321|5322|6531> <hex-bytes> [hex-ctx]
 *        eavprobe dom   <hex-bytes>           (is_ascii_domain)
 *        eavprobe ip    <v4|v6|addr> <hex-bytes> [hex-ctx]
 *        eavprobe spec  <hex-bytes>           (is_special_domain)
 *        eavprobe tld   <hex-bytes>           (is_tld)
 */
#include <stdio.h>
#include <stdlib.h>
#include <string.h>
#include <eav.h>

static size_t unhex(const char *h, char *out)
{
    size_t n = 0;
    for (; h[0] && h[1]; h += 2) {
        unsigned v; sscanf(h, "%2x", &v); out[n++] = (char) v;
    }
    out[n] = 0;
    return n;
}

int main(int argc, char **argv)
{
    static char buf[70000], ctx[64];
    if (argc < 3) return 2;
    if (!strcmp(argv[1], "api") && argc >= 6) {
        eav_t eav;
        size_t n = unhex(argv[5], buf);
        memset(&eav, 0x5a, sizeof eav);
        eav_init(&eav);
        eav.rfc = atoi(argv[2]);
        eav.tld_check = atoi(argv[3]);
        eav.allow_tld = (int) strtol(argv[4], NULL, 0);
        int s = eav_setup(&eav);
        printf("setup=%d\n", s);
        if (s != 0) { printf("errstr=%s\n", eav_errstr(&eav)); return 0; }
        int r = eav_is_email(&eav, buf, n);
        printf("ret=%d errcode=%d errstr=%s rc=%d idn_rc=%d v4=%d v6=%d dom=%d\n",
               r, eav.errcode, eav_errstr(&eav), eav.result->rc, (int) eav.result->idn_rc,
               eav.result->is_ipv4, eav.result->is_ipv6, eav.result->is_domain);
#ifdef EAV_EXTRA
        printf("lpart=%s domain=%s\n", eav.result->lpart ? eav.result->lpart : "(null)",
               eav.result->domain ? eav.result->domain : "(null)");
#endif
        eav_free(&eav);
        return 0;
    }
    size_t n, c = 0;
    if (!strcmp(argv[1], "local") || !strcmp(argv[1], "ip")) {
        n = unhex(argv[3], buf);
        if (argc > 4) c = unhex(argv[4], ctx);
        memcpy(buf + n, ctx, c); buf[n + c] = 0;
        int r;
        if (!strcmp(argv[1], "local")) {
            int m = atoi(argv[2]);
            r = m == 822 ? is_822_local(buf, buf + n) : m == 5321 ? is_5321_local(buf, buf + n)
              : m == 5322 ? is_5322_local(buf, buf + n) : is_6531_local(buf, buf + n);
        } else {
            r = !strcmp(argv[2], "v4") ? is_ipv4(buf, buf + n) : !strcmp(argv[2], "v6") ? is_ipv6(buf, buf + n)
              : is_ipaddr(buf, buf + n);
        }
        printf("rc=%d\n", r);
        return 0;
    }
    n = unhex(argv[2], buf);
    if (!strcmp(argv[1], "dom"))  printf("rc=%d\n", is_ascii_domain(buf, buf + n));
    if (!strcmp(argv[1], "spec")) printf("rc=%d\n", is_special_domain(buf, buf + n));
    if (!strcmp(argv[1], "tld"))  printf("rc=%d\n", is_tld(buf, buf + n));
    return 0;
}
