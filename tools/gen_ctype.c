/* dump glibc's C-locale ctype table (what isalnum/iscntrl/isdigit index) */
#include <ctype.h>
#include <stdio.h>
#include <locale.h>
int main(void)
{
    setlocale(LC_ALL, "C");
    const unsigned short *t = *__ctype_b_loc();
    printf("/* generated at setup from the live libc, C locale */\n");
    printf("static const unsigned short vf_ctype_b[384] = {\n");
    for (int i = -128; i < 256; i++)
        printf("%s0x%04x,%s", (i + 128) % 8 == 0 ? " " : "", t[i], (i + 128) % 8 == 7 ? "\n" : " ");
    printf("};\n");
    return 0;
}
