#!/usr/bin/env python3
"""Regenerate /verif/MANIFEST.json from vflib/props.py (single source of truth)."""
import json, os, sys
sys.path.insert(0, os.path.dirname(os.path.dirname(os.path.abspath(__file__))))
from vflib import props

ALL = ['C%02d' % i for i in range(1, 21)]
checks = []
for pid in ALL:
    s = props.PROPS.get(pid)
    if not s or s.get('disabled'):
        continue
    checks.append({
        'property_id': pid,
        'quick_cmd': './vf check %s --tier quick' % pid,
        'thorough_cmd': './vf check %s --tier thorough' % pid,
        'evidence_file': 'evidence/%s.json' % pid,
        'replay_cmd_template': './vf replay {path}',
        'engine': 'vf-cbmc',
        'level_claimed': {
            'category': s.get('level', 'model_checking'),
            'text': s.get('claim', 'Bounded symbolic execution (CBMC 6.11, SAT) of the real translation units named in the evidence, '
                                   'for every input within the bounds stated per query; unwinding assertions make a too-small bound an error.'),
            'design_ref': s.get('design_ref', 'DESIGN.md section 3, ' + pid),
        },
        'level_note': s.get('note', '; '.join(s.get('assumptions', []) + ['outside the claim: ' + '; '.join(s.get('outside', []))])),
        'technique': s.get('technique', 'bounded model checking of the real C units with CBMC (goto-cc + SAT), counterexamples replayed on a gcc/ASan build'),
    })
na = []
for pid in ALL:
    s = props.PROPS.get(pid)
    if not s or s.get('disabled'):
        na.append({'property_id': pid, 'reason': (s or {}).get('na_reason', props.NA.get(pid, 'check not built yet'))})
m = {
    'version': 1,
    'setup_cmd': './tools/setup.sh',
    'hooks': {
        'guard': 'LIBEAV_VERIF',
        'enable': 'every goto-cc / gcc invocation of the checks passes -DLIBEAV_VERIF (vflib/core.py BASE_DEFS); '
                  'the only hook is the TEXT_SIZE override in bin/main.h, enabled with -DLIBEAV_VERIF_TEXT_SIZE=n',
        'baseline_off_cmd': './tools/baseline.sh /repo',
        'source_commits': props.HOOK_COMMITS,
        'add_only': True,
    },
    'engines': [{'name': 'vf-cbmc', 'path': 'vf', 'serves_properties': [c['property_id'] for c in checks],
                 'kind_free_text': 'Python driver: goto-cc encode of /repo working tree -> cbmc 6.11 (MiniSat/CaDiCaL) -> trace extraction -> '
                                   'native replay (gcc + ASan/UBSan build of the same tree) -> evidence'}],
    'checks': checks,
    'not_applicable': na,
    'notes': 'All checks rebuild from /repo on every run. Exit 0 = held within bounds; 1 = VIOLATION (replayed natively); '
             '2 = check inconclusive/broken (timeout, vacuity, encoding error); 3 = solver counterexample that did not reproduce natively.',
}
json.dump(m, open(os.path.join(os.path.dirname(os.path.dirname(os.path.abspath(__file__))), 'MANIFEST.json'), 'w'), indent=1)
print('%d checks, %d not applicable' % (len(checks), len(na)))
