#!/bin/bash
# MANIFEST.setup_cmd: build the framework from files on disk only (offline).
set -e
cd "$(dirname "$0")/.."
mkdir -p build evidence replays
gcc -O0 -o build/gen_ctype tools/gen_ctype.c
./build/gen_ctype > build/ctype_table.h
for t in cbmc goto-cc goto-instrument gcc python3; do command -v $t >/dev/null || { echo "missing tool $t"; exit 1; }; done
cbmc --version
echo "setup ok"
