#!/bin/bash
# verify a seeded change: verify_seed.sh <dir with patch.diff run_demo.sh>
# confirms: applies, builds, make check passes with the 114 baseline tests, demo fails with / passes without.
set -u
S=$(realpath "$1")
W=/tmp/vs-$$
git -C /repo worktree add -q --detach $W HEAD || exit 9
trap 'git -C /repo worktree remove --force '$W'; git -C /repo worktree prune' EXIT
cd $W
echo "--- clean tree demo"
( bash "$S/run_demo.sh" $W >/tmp/vs-$$-clean.log 2>&1 ); c=$?
git -C $W checkout -q -- . ; git -C $W clean -fdqx
git -C $W apply "$S/patch.diff" || { echo "RESULT: patch does not apply"; exit 1; }
echo "--- patched: baseline"
/verif/tools/baseline.sh $W; b=$?
echo "--- patched tree demo"
( bash "$S/run_demo.sh" $W >/tmp/vs-$$-patched.log 2>&1 ); p=$?
tail -3 /tmp/vs-$$-patched.log
rm -f /tmp/vs-$$-*.log
echo "RESULT: clean_demo_rc=$c patched_demo_rc=$p baseline_rc=$b"
[ $c -eq 0 ] && [ $p -ne 0 ] && [ $b -eq 0 ] && echo "SEED-OK" || echo "SEED-BAD"
