#!/bin/bash
# build the native probe against a tree: mkprobe.sh <repo-dir> <out-binary> [extra cflags]
set -e
R=$1; O=$2; shift 2
gcc -O1 -g -w -I"$R/include" -I"$R" -D_DEFAULT_SOURCE -D_XOPEN_SOURCE=700 -D_SVID_SOURCE -DHAVE_LIBIDN2 "$@" \
  -o "$O" /verif/replay/eavprobe.c "$R"/src/*.c "$R"/partial/idn2/*.c -lidn2
