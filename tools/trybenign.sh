#!/bin/bash
# run checks against a scratch worktree with a behaviour-preserving refactoring applied: every check must exit 0.
# usage: trybenign.sh <dir with patch.diff meta.json> [tier]
D=$(realpath "$1"); TIER=${2:-quick}
BASE=$(python3 -c "import json;print(json.load(open('$D/meta.json'))['base'])")
PROPS=$(python3 -c "import json;print(' '.join(json.load(open('$D/meta.json'))['check_with']))")
W=/tmp/benwt-$$
git -C /repo worktree add -q --detach $W $BASE || exit 9
trap 'git -C /repo worktree remove --force '$W' 2>/dev/null; git -C /repo worktree prune' EXIT
git -C $W apply "$D/patch.diff" || { echo "patch does not apply"; exit 9; }
bad=0
for pr in $PROPS; do
  out=$(VF_REPO=$W VF_EVIDENCE_DIR=/tmp/benev-$$ /verif/vf check $pr --tier $TIER 2>/dev/null); rc=$?
  echo "$(basename $D) $pr exit=$rc $(echo "$out" | grep -E "VIOLATION|UNCONFIRMED|BROKEN" | head -3 | cut -c1-260 | tr '\n' '|')"
  [ $rc -ne 0 ] && bad=1
done
rm -rf /tmp/benev-$$
exit $bad
