#!/bin/bash
# Run the repository's own test-suite (guard OFF) on a scratch copy of /repo's
# working tree and compare the PASS lines with /root/.vp/BASELINE.json.
# usage: baseline.sh [repo-dir]   (default /repo)
set -u
REPO=${1:-/repo}
W=$(mktemp -d /var/tmp/vf-baseline.XXXXXX)
trap 'rm -rf "$W"' EXIT
rsync -a --exclude .git --exclude '*.o' --exclude '*.bin' --exclude 'libeav.*' --exclude bin/eav "$REPO"/ "$W"/r/
cd "$W/r" || exit 2
make -j8 >"$W/build.log" 2>&1 || { tail -30 "$W/build.log"; echo "BASELINE: build failed"; exit 1; }
make check >"$W/check.log" 2>&1
rc=$?
python3 - "$W/check.log" $rc <<'PY'
import json,sys,re
log=open(sys.argv[1],errors='surrogateescape').read().splitlines()
rc=int(sys.argv[2])
base=json.load(open('/root/.vp/BASELINE.json'))
want=set(base['stable_pass'])
got=set()
for l in log:
    m=re.match(r'^PASS: (.*)$',l)
    if m: got.add(m.group(1))
    m=re.match(r'^(\./t-[\w-]+\.bin): PASS$',l)
    if m: got.add(m.group(1))
missing=sorted(w for w in want if w not in got)
print("BASELINE: make check rc=%d, %d/%d baseline tests pass"%(rc,len(want)-len(missing),len(want)))
for m in missing: print("  missing:",m)
sys.exit(0 if rc==0 and not missing else 1)
PY
