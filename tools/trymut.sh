#!/bin/bash
# apply a patch to /repo, run checks, undo.  usage: trymut.sh <patch> <prop>[,<prop>..] [tier] [extra vf args]
P=$1; PROPS=$2; TIER=${3:-quick}; shift 3 2>/dev/null
git -C /repo apply "$P" || { echo "patch does not apply"; exit 9; }
trap 'git -C /repo checkout -- . ' EXIT
for pr in ${PROPS//,/ }; do
  cp /verif/evidence/$pr.json /tmp/ev-$pr.bak 2>/dev/null
  /verif/vf check $pr --tier $TIER "$@" 2>/dev/null | grep -vE "^  query=" | cut -c1-400 | head -12
  echo "  -> $pr exit=${PIPESTATUS[0]}"
  cp /tmp/ev-$pr.bak /verif/evidence/$pr.json 2>/dev/null
done
