#!/bin/bash
# run checks against a scratch worktree of /repo with a patch applied (VF_REPO), leaving /repo alone.
# usage: trymut.sh <patch> <prop>[,<prop>..] [tier] [extra vf args]
P=$(realpath "$1"); PROPS=$2; TIER=${3:-quick}; shift 3 2>/dev/null
W=/tmp/mutwt-$$
git -C /repo worktree add -q --detach $W HEAD || exit 9
trap 'git -C /repo worktree remove --force '$W' 2>/dev/null; git -C /repo worktree prune' EXIT
git -C $W apply "$P" || { echo "patch does not apply"; exit 9; }
for pr in ${PROPS//,/ }; do
  VF_REPO=$W VF_EVIDENCE_DIR=/tmp/mutev-$$ /verif/vf check $pr --tier $TIER "$@" 2>/dev/null | grep -vE "^  query=" | cut -c1-300 | head -8
  echo "  -> $pr exit=${PIPESTATUS[0]}"
done
rm -rf /tmp/mutev-$$
