#!/bin/bash
# Self-test: every planted change must be refuted by the check of its property.
#   selftest.sh            all reverts of the fix: commits (mutants/) and all seeded changes (seeded/)
#   selftest.sh <pattern>  only those whose path matches
cd "$(dirname "$0")/.."
pat=${1:-.}
python3 - "$pat" <<'PY'
import json, glob, os, subprocess, sys, re
pat = sys.argv[1]
jobs = []
kf = json.load(open('known_findings.json'))
for f in kf['findings']:
    if f.get('revert_patch'):
        jobs.append((f['revert_patch'], ','.join(f['detected_by'] if os.environ.get('ALL') else f['detected_by'][:1])))
for m in sorted(glob.glob('seeded/*/meta.json')):
    d = json.load(open(m))
    cw = d.get('check_with', [d['property']])
    jobs.append((os.path.join(os.path.dirname(m), 'patch.diff'), ','.join(cw if os.environ.get('ALL') else cw[:1])))
from concurrent.futures import ThreadPoolExecutor
par = int(os.environ.get('PAR', '2'))
jobs = [(p, pr) for p, pr in jobs if re.search(pat, p)]


def one(job):
    patch, props = job
    p = subprocess.run(['tools/trymut.sh', patch, props, os.environ.get('TIER', 'quick')], stdout=subprocess.PIPE, stderr=subprocess.STDOUT)
    out = p.stdout.decode()
    caught = re.findall(r'-> (C\d+) exit=1', out)
    status = 'CAUGHT by ' + ','.join(caught) if caught else 'MISSED (' + ' '.join(re.findall(r'exit=\d+', out)) + ')'
    print('%-45s %-12s %s' % (patch, props, status), flush=True)
    return 0 if caught else 1


with ThreadPoolExecutor(max_workers=par) as ex:
    bad = sum(ex.map(one, jobs))
print('selftest: %d planted changes, %d missed' % (len(jobs), bad))
sys.exit(1 if bad else 0)
PY
